#!/bin/sh
# Idempotent offline setup: overlay venv on /venv with crosshair-tool + z3-solver.
set -e
V=/verif/.venv
if [ -x "$V/bin/python" ] && "$V/bin/python" -c "import crosshair, z3, django" 2>/dev/null; then
    exit 0
fi
rm -rf "$V"
/venv/bin/python -m venv "$V"
SP=$("$V/bin/python" -c "import sysconfig; print(sysconfig.get_paths()['purelib'])")
printf "import site; site.addsitedir('/venv/lib/python3.12/site-packages')\n" > "$SP/verif_overlay.pth"
PIP_NO_INDEX=1 "$V/bin/pip" install -q --no-index --find-links /opt/veriftools/wheels crosshair-tool z3-solver >/dev/null
"$V/bin/python" -c "import crosshair, z3, django; print('setup ok', z3.get_version_string())"
