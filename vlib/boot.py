"""Django bootstrap shared by every harness (concrete environment, part of the trusted base).

/repo is put first on sys.path so the working tree is what gets analysed.
"""
import os
import sys

# VERIF_REPO lets the framework be pointed at a scratch copy (used only for experiments with
# seeded/benign changes); every registered command analyses /repo itself.
REPO = os.environ.get('VERIF_REPO', '/repo')
sys.path.insert(0, REPO + '/tests')
sys.path.insert(0, REPO)

import django
from django.conf import settings

if not settings.configured:
    settings.configure(
        DEBUG=False, USE_TZ=True, SECRET_KEY='x',
        DATABASES={
            'default': {'ENGINE': 'django.db.backends.sqlite3',
                        'NAME': ':memory:'},
            'other': {'ENGINE': 'django.db.backends.sqlite3',
                      'NAME': ':memory:'},
        },
        INSTALLED_APPS=['django.contrib.contenttypes', 'django.contrib.auth',
                        'django_evolution'],
        DEFAULT_AUTO_FIELD='django.db.models.AutoField',
    )
    from django_evolution.compat.patches import apply_patches
    apply_patches()
    django.setup()

# Stub: Django's DB debug timing must not consult CrossHair's symbolic clock.
import types as _types
import django.db.backends.utils as _dbu
_dbu.time = _types.SimpleNamespace(monotonic=lambda: 0.0, time=lambda: 0.0)
import django.db.backends.base.base as _dbb
_dbb.time = _types.SimpleNamespace(monotonic=lambda: 0.0, time=lambda: 0.0)

# Open the connections before any analysis starts (a connect inside a traced path is
# non-deterministic across CrossHair iterations).
from django.db import connections as _connections
for _alias in _connections:
    _connections[_alias].ensure_connection()
