# CrossHair --extra_plugin entry point (exec'd without shared globals): import the real module.
import sys
if '/verif' not in sys.path:
    sys.path.insert(0, '/verif')
import vlib.ch_patch  # noqa
