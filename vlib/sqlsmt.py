"""SQL -> SMT for the subset of SQLite that django-evolution and Django's schema editor emit.

Two uses:
  * data flow (C02): interpret an evolution's statement list over tables whose cells are z3
    variables (isnull: Bool, val: Int) and compare with the expected cells;
  * constraint semantics (C01): build, from a catalog introspected from a real SQLite database,
    the predicate "this table content is accepted" and let z3 decide whether two catalogs accept
    exactly the same contents.

Anything outside the subset raises Unsupported: the program is then counted as unsupported,
never as a violation.
"""
import re

import z3


class Unsupported(Exception):
    pass


# ------------------------------------------------------------------------------ tokenizer
_TOKEN = re.compile(r'''
    \s+ |
    (?P<str>'(?:[^']|'')*') |
    (?P<qid>"(?:[^"]|"")*"|`[^`]*`|\[[^\]]*\]) |
    (?P<num>-?\d+(?:\.\d+)?) |
    (?P<param>%s) |
    (?P<op><>|!=|<=|>=|==|\|\||[(),;=<>*+\-/.]) |
    (?P<word>[A-Za-z_][A-Za-z_0-9]*)
''', re.X)


def tokenize(sql):
    out = []
    pos = 0
    while pos < len(sql):
        m = _TOKEN.match(sql, pos)
        if not m:
            raise Unsupported('cannot tokenize at %r' % sql[pos:pos + 30])
        pos = m.end()
        k = m.lastgroup
        if k is None:
            continue
        v = m.group(k)
        if k == 'qid':
            out.append(('id', v[1:-1].replace('""', '"')))
        elif k == 'str':
            out.append(('str', v[1:-1].replace("''", "'")))
        elif k == 'num':
            out.append(('num', v))
        elif k == 'param':
            out.append(('param', None))
        elif k == 'op':
            out.append(('op', v))
        else:
            out.append(('word', v.upper()) if v.upper() in _KEYWORDS else ('id', v))
    return out


_KEYWORDS = set('''CREATE TABLE TEMP TEMPORARY UNIQUE INDEX ON WHERE DROP ALTER RENAME TO COLUMN ADD
INSERT INTO SELECT FROM UPDATE SET IS NULL NOT AND OR PRIMARY KEY AUTOINCREMENT REFERENCES
DEFERRABLE INITIALLY DEFERRED IMMEDIATE CHECK DEFAULT CONSTRAINT FOREIGN COALESCE IF EXISTS DESC ASC
IN BETWEEN LIKE CASCADE VALUES DELETE TRUE FALSE COLLATE'''.split())


class P(object):
    """Token cursor."""

    def __init__(self, toks):
        self.t = toks
        self.i = 0

    def peek(self, k=0):
        return self.t[self.i + k] if self.i + k < len(self.t) else (None, None)

    def next(self):
        tok = self.peek()
        self.i += 1
        return tok

    def accept(self, kind, val=None):
        k, v = self.peek()
        if k == kind and (val is None or v == val):
            self.i += 1
            return True
        return False

    def expect(self, kind, val=None):
        k, v = self.next()
        if k != kind or (val is not None and v != val):
            raise Unsupported('expected %s %s, got %s %s' % (kind, val, k, v))
        return v

    def ident(self):
        k, v = self.next()
        if k != 'id':
            raise Unsupported('expected identifier, got %s %r' % (k, v))
        return v

    def done(self):
        return self.i >= len(self.t) or all(t == ('op', ';') for t in self.t[self.i:])


# ------------------------------------------------------------------------------ expressions
# AST: ('col', name) ('lit', value) ('param', index) ('null',) ('cmp', op, a, b) ('and', a, b)
#      ('or', a, b) ('not', a) ('isnull', a, negated) ('coalesce', a, b) ('in', a, [lits])

def parse_expr(p):
    return _or(p)


def _or(p):
    a = _and(p)
    while p.accept('word', 'OR'):
        a = ('or', a, _and(p))
    return a


def _and(p):
    a = _not(p)
    while p.accept('word', 'AND'):
        a = ('and', a, _not(p))
    return a


def _not(p):
    if p.accept('word', 'NOT'):
        return ('not', _not(p))
    return _cmp(p)


def _cmp(p):
    a = _atom(p)
    k, v = p.peek()
    if k == 'op' and v in ('=', '==', '<>', '!=', '<', '<=', '>', '>='):
        p.next()
        b = _atom(p)
        return ('cmp', {'==': '=', '<>': '!='}.get(v, v), a, b)
    if k == 'word' and v == 'IS':
        p.next()
        neg = p.accept('word', 'NOT')
        p.expect('word', 'NULL')
        return ('isnull', a, neg)
    if k == 'word' and v == 'IN':
        p.next()
        p.expect('op', '(')
        items = [_atom(p)]
        while p.accept('op', ','):
            items.append(_atom(p))
        p.expect('op', ')')
        return ('in', a, items)
    return a


def _atom(p):
    k, v = p.next()
    if k == 'op' and v == '(':
        e = parse_expr(p)
        p.expect('op', ')')
        return e
    if k == 'id':
        if p.accept('op', '.'):          # table.column
            return ('col', p.ident())
        return ('col', v)
    if k == 'num':
        if '.' in v:
            raise Unsupported('non-integer literal')
        return ('lit', int(v))
    if k == 'str':
        return ('lit', v)
    if k == 'param':
        return ('param',)
    if k == 'word' and v == 'NULL':
        return ('null',)
    if k == 'word' and v in ('TRUE', 'FALSE'):
        return ('lit', 1 if v == 'TRUE' else 0)
    if k == 'word' and v == 'COALESCE':
        p.expect('op', '(')
        a = parse_expr(p)
        p.expect('op', ',')
        b = parse_expr(p)
        p.expect('op', ')')
        return ('coalesce', a, b)
    raise Unsupported('unexpected token in expression: %s %r' % (k, v))


class Values(object):
    """Injective map from Python values (ints, strings, bools, None) to z3 cells."""

    def __init__(self):
        self.strs = {}

    def cell(self, v):
        if v is None:
            return (z3.BoolVal(True), z3.IntVal(0))
        if isinstance(v, bool):
            return (z3.BoolVal(False), z3.IntVal(1 if v else 0))
        if isinstance(v, int):
            return (z3.BoolVal(False), z3.IntVal(v))
        if isinstance(v, str):
            # strings live far away from every integer a test value uses
            if v not in self.strs:
                self.strs[v] = 10 ** 30 + len(self.strs)
            return (z3.BoolVal(False), z3.IntVal(self.strs[v]))
        raise Unsupported('parameter of type %s' % type(v).__name__)


def eval_value(e, row, vals, params):
    """(isnull, val) of a value expression over a row {col: (isnull, val)}."""
    k = e[0]
    if k == 'col':
        if e[1] not in row:
            raise Unsupported('unknown column %r' % e[1])
        return row[e[1]]
    if k == 'lit':
        return vals.cell(e[1])
    if k == 'null':
        return vals.cell(None)
    if k == 'param':
        return vals.cell(params.pop(0))
    if k == 'coalesce':
        a = eval_value(e[1], row, vals, params)
        b = eval_value(e[2], row, vals, params)
        return (z3.And(a[0], b[0]), z3.If(a[0], b[1], a[1]))
    raise Unsupported('value expression %r' % (k,))


def eval_bool(e, row, vals):
    """Three-valued SQL logic: returns (is_true, is_null) as z3 Bools."""
    k = e[0]
    if k == 'and':
        at, an = eval_bool(e[1], row, vals)
        bt, bn = eval_bool(e[2], row, vals)
        af = z3.And(z3.Not(at), z3.Not(an))
        bf = z3.And(z3.Not(bt), z3.Not(bn))
        false = z3.Or(af, bf)
        true = z3.And(at, bt)
        return (true, z3.And(z3.Not(true), z3.Not(false)))
    if k == 'or':
        at, an = eval_bool(e[1], row, vals)
        bt, bn = eval_bool(e[2], row, vals)
        true = z3.Or(at, bt)
        af = z3.And(z3.Not(at), z3.Not(an))
        bf = z3.And(z3.Not(bt), z3.Not(bn))
        false = z3.And(af, bf)
        return (true, z3.And(z3.Not(true), z3.Not(false)))
    if k == 'not':
        at, an = eval_bool(e[1], row, vals)
        return (z3.And(z3.Not(at), z3.Not(an)), an)
    if k == 'isnull':
        a = eval_value(e[1], row, vals, [])
        return ((z3.Not(a[0]) if e[2] else a[0]), z3.BoolVal(False))
    if k == 'cmp':
        a = eval_value(e[2], row, vals, [])
        b = eval_value(e[3], row, vals, [])
        null = z3.Or(a[0], b[0])
        op = e[1]
        c = {'=': a[1] == b[1], '!=': a[1] != b[1], '<': a[1] < b[1], '<=': a[1] <= b[1],
             '>': a[1] > b[1], '>=': a[1] >= b[1]}[op]
        return (z3.And(z3.Not(null), c), null)
    if k == 'in':
        a = eval_value(e[1], row, vals, [])
        items = [eval_value(i, row, vals, []) for i in e[2]]
        true = z3.And(z3.Not(a[0]), z3.Or([z3.And(z3.Not(i[0]), a[1] == i[1]) for i in items]))
        return (true, a[0])
    if k in ('col', 'lit'):
        a = eval_value(e, row, vals, [])
        return (z3.And(z3.Not(a[0]), a[1] != 0), a[0])
    raise Unsupported('boolean expression %r' % (k,))


# ------------------------------------------------------------------------------ statements

def parse_statement(sql):
    """-> dict describing one statement of the supported subset."""
    p = P(tokenize(sql))
    k, v = p.next()
    if (k, v) == ('word', 'CREATE'):
        if p.accept('word', 'TABLE'):
            name = p.ident()
            p.expect('op', '(')
            cols, checks = _table_body(p)
            return {'kind': 'create_table', 'table': name, 'columns': cols, 'checks': checks}
        unique = p.accept('word', 'UNIQUE')
        p.expect('word', 'INDEX')
        name = p.ident()
        p.expect('word', 'ON')
        table = p.ident()
        return {'kind': 'create_index', 'name': name, 'table': table, 'unique': unique}
    if (k, v) == ('word', 'DROP'):
        if p.accept('word', 'TABLE'):
            return {'kind': 'drop_table', 'table': p.ident()}
        p.expect('word', 'INDEX')
        return {'kind': 'drop_index', 'name': p.ident()}
    if (k, v) == ('word', 'ALTER'):
        p.expect('word', 'TABLE')
        table = p.ident()
        if p.accept('word', 'RENAME'):
            if p.accept('word', 'TO'):
                return {'kind': 'rename_table', 'table': table, 'new': p.ident()}
            p.accept('word', 'COLUMN')
            old = p.ident()
            p.expect('word', 'TO')
            return {'kind': 'rename_column', 'table': table, 'old': old, 'new': p.ident()}
        p.expect('word', 'ADD')
        p.accept('word', 'COLUMN')
        col = _column_def(p)
        return {'kind': 'add_column', 'table': table, 'column': col}
    if (k, v) == ('word', 'INSERT'):
        p.expect('word', 'INTO')
        table = p.ident()
        p.expect('op', '(')
        cols = [p.ident()]
        while p.accept('op', ','):
            cols.append(p.ident())
        p.expect('op', ')')
        p.expect('word', 'SELECT')
        exprs = [parse_expr(p)]
        while p.accept('op', ','):
            exprs.append(parse_expr(p))
        p.expect('word', 'FROM')
        src = p.ident()
        if not p.done():
            raise Unsupported('INSERT..SELECT with trailing clause')
        if len(cols) != len(exprs):
            raise Unsupported('INSERT column/expression count mismatch')
        return {'kind': 'insert_select', 'table': table, 'columns': cols, 'exprs': exprs,
                'source': src}
    if (k, v) == ('word', 'UPDATE'):
        table = p.ident()
        p.expect('word', 'SET')
        col = p.ident()
        p.expect('op', '=')
        e = parse_expr(p)
        where = None
        if p.accept('word', 'WHERE'):
            where = parse_expr(p)
        if not p.done():
            raise Unsupported('UPDATE with trailing clause')
        return {'kind': 'update', 'table': table, 'column': col, 'expr': e, 'where': where}
    raise Unsupported('statement starting with %s %r' % (k, v))


def _skip_parens(p):
    depth = 1
    while depth:
        k, v = p.next()
        if k is None:
            raise Unsupported('unbalanced parentheses')
        if (k, v) == ('op', '('):
            depth += 1
        elif (k, v) == ('op', ')'):
            depth -= 1


def _column_def(p):
    name = p.ident()
    col = {'name': name, 'type': '', 'notnull': False, 'pk': False, 'unique': False,
           'default': None, 'has_default': False, 'references': None, 'check': None}
    # type: identifiers up to a keyword, optional (n[, m])
    parts = []
    while p.peek()[0] == 'id':
        parts.append(p.next()[1])
    if p.accept('op', '('):
        _skip_parens(p)
    col['type'] = ' '.join(parts).lower()
    while True:
        k, v = p.peek()
        if k is None or (k, v) in (('op', ','), ('op', ')'), ('op', ';')):
            break
        p.next()
        if (k, v) == ('word', 'NOT'):
            p.expect('word', 'NULL')
            col['notnull'] = True
        elif (k, v) == ('word', 'NULL'):
            pass
        elif (k, v) == ('word', 'PRIMARY'):
            p.expect('word', 'KEY')
            p.accept('word', 'AUTOINCREMENT')
            col['pk'] = True
        elif (k, v) == ('word', 'UNIQUE'):
            col['unique'] = True
        elif (k, v) == ('word', 'DEFAULT'):
            e = _atom(p)
            col['default'] = e
            col['has_default'] = True
        elif (k, v) == ('word', 'REFERENCES'):
            t = p.ident()
            p.expect('op', '(')
            c = p.ident()
            p.expect('op', ')')
            col['references'] = (t, c)
            if p.accept('word', 'DEFERRABLE'):
                p.expect('word', 'INITIALLY')
                p.next()
        elif (k, v) == ('word', 'CHECK'):
            p.expect('op', '(')
            col['check'] = parse_expr(p)
            p.expect('op', ')')
        elif (k, v) == ('word', 'CONSTRAINT'):
            p.ident()
        else:
            raise Unsupported('column option %s %r' % (k, v))
    return col


def _table_body(p):
    cols, checks = [], []
    while True:
        k, v = p.peek()
        if k == 'word' and v in ('CONSTRAINT', 'UNIQUE', 'CHECK', 'FOREIGN', 'PRIMARY'):
            if p.accept('word', 'CONSTRAINT'):
                p.ident()
            k, v = p.next()
            if (k, v) == ('word', 'CHECK'):
                p.expect('op', '(')
                checks.append(parse_expr(p))
                p.expect('op', ')')
            elif (k, v) in (('word', 'UNIQUE'), ('word', 'PRIMARY'), ('word', 'FOREIGN')):
                if v != 'UNIQUE':
                    p.expect('word', 'KEY')
                p.expect('op', '(')
                _skip_parens(p)
                if v == 'FOREIGN':
                    raise Unsupported('table-level FOREIGN KEY')
            else:
                raise Unsupported('table constraint %s %r' % (k, v))
        else:
            cols.append(_column_def(p))
        if p.accept('op', ','):
            continue
        p.expect('op', ')')
        break
    return cols, checks


# ------------------------------------------------------------------------------ data flow

class DataState(object):
    """Tables with R symbolic rows each: {table: {'cols': [names], 'rows': [ {col: cell} ]}}."""

    def __init__(self, vals, nrows=2):
        self.vals = vals
        self.nrows = nrows
        self.tables = {}
        self.not_null_violations = []   # z3 Bools: a NULL would be written into a NOT NULL column
        self.notnull = {}               # table -> set of NOT NULL columns (for (e))

    def add_symbolic_table(self, table, cols, notnull=()):
        rows = []
        for r in range(self.nrows):
            row = {}
            for c in cols:
                row[c] = (z3.Bool('n_%s_%s_%d' % (table, c, r)), z3.Int('v_%s_%s_%d' % (table, c, r)))
            rows.append(row)
        self.tables[table] = {'cols': list(cols), 'rows': rows}
        self.notnull[table] = set(notnull)

    def run(self, stmt, params):
        params = list(params or [])
        k = stmt['kind']
        T = self.tables
        if k == 'create_table':
            if stmt['table'] in T:
                raise Unsupported('CREATE TABLE of an existing table')
            T[stmt['table']] = {'cols': [c['name'] for c in stmt['columns']], 'rows': None}
            self.notnull[stmt['table']] = set(c['name'] for c in stmt['columns']
                                              if c['notnull'] or c['pk'])
        elif k == 'drop_table':
            T.pop(stmt['table'], None)
            self.notnull.pop(stmt['table'], None)
        elif k == 'rename_table':
            T[stmt['new']] = T.pop(stmt['table'])
            self.notnull[stmt['new']] = self.notnull.pop(stmt['table'], set())
        elif k == 'rename_column':
            t = T[stmt['table']]
            t['cols'] = [stmt['new'] if c == stmt['old'] else c for c in t['cols']]
            if t['rows'] is not None:
                for row in t['rows']:
                    row[stmt['new']] = row.pop(stmt['old'])
            nn = self.notnull.get(stmt['table'], set())
            if stmt['old'] in nn:
                nn.discard(stmt['old'])
                nn.add(stmt['new'])
        elif k == 'add_column':
            t = T[stmt['table']]
            c = stmt['column']
            t['cols'].append(c['name'])
            cell = eval_value(c['default'], {}, self.vals, params) if c['has_default'] \
                else self.vals.cell(None)
            if t['rows'] is not None:
                for row in t['rows']:
                    row[c['name']] = cell
            if c['notnull']:
                self.notnull.setdefault(stmt['table'], set()).add(c['name'])
                if t['rows'] is not None:
                    self.not_null_violations.append(cell[0])
        elif k == 'insert_select':
            dst, src = T[stmt['table']], T[stmt['source']]
            if dst['rows'] is not None:
                raise Unsupported('INSERT..SELECT into a non-empty table')
            if src['rows'] is None:
                dst['rows'] = None
                return
            rows = []
            for srow in src['rows']:
                ps = list(params)
                row = {}
                for c, e in zip(stmt['columns'], stmt['exprs']):
                    row[c] = eval_value(e, srow, self.vals, ps)
                for c in dst['cols']:
                    if c not in row:
                        row[c] = self.vals.cell(None)
                for c in self.notnull.get(stmt['table'], ()):
                    self.not_null_violations.append(row[c][0])
                rows.append(row)
            dst['rows'] = rows
        elif k == 'update':
            t = T[stmt['table']]
            if t['rows'] is None:
                return
            for row in t['rows']:
                ps = list(params)
                new = eval_value(stmt['expr'], row, self.vals, ps)
                if stmt['where'] is not None:
                    wt, _wn = eval_bool(stmt['where'], row, self.vals)
                    old = row[stmt['column']]
                    new = (z3.If(wt, new[0], old[0]), z3.If(wt, new[1], old[1]))
                row[stmt['column']] = new
        elif k in ('create_index', 'drop_index'):
            pass
        else:
            raise Unsupported(k)


# ------------------------------------------------------------------------------ acceptance

def acceptance(catalog, rows, vals):
    """z3 Bool: the symbolic contents `rows` ({table: [row dict]}) satisfy every constraint the
    catalog declares. catalog: {table: {'columns': {name: {'notnull','pk'}}, 'uniques':
    [(cols tuple, where expr|None)], 'checks': [expr], 'fks': [(col, ref_table, ref_col)]}}"""
    conj = []
    for table, info in catalog.items():
        trs = rows.get(table)
        if trs is None:
            continue
        for row in trs:
            for cname, c in info['columns'].items():
                if c['notnull'] or c['pk']:
                    conj.append(z3.Not(row[cname][0]))
            for chk in info['checks']:
                t, n = eval_bool(chk, row, vals)
                conj.append(z3.Or(t, n))
            for (col, rt, rc) in info['fks']:
                prs = rows.get(rt)
                cell = row[col]
                if prs is None or rc not in (prs[0] if prs else {}):
                    conj.append(cell[0])            # dangling target table: only NULL is valid
                else:
                    conj.append(z3.Or(cell[0], z3.Or([
                        z3.And(z3.Not(pr[rc][0]), pr[rc][1] == cell[1]) for pr in prs])))
        uniques = list(info['uniques'])
        for cname, c in info['columns'].items():
            if c['pk']:
                uniques.append(((cname,), None))
        for cols, where in uniques:
            for i in range(len(trs)):
                for j in range(i + 1, len(trs)):
                    a, b = trs[i], trs[j]
                    same = [z3.And(z3.Not(a[c][0]), z3.Not(b[c][0]), a[c][1] == b[c][1])
                            for c in cols]
                    cond = z3.And(same)
                    if where is not None:
                        wa, _ = eval_bool(where, a, vals)
                        wb, _ = eval_bool(where, b, vals)
                        cond = z3.And(cond, wa, wb)
                    conj.append(z3.Not(cond))
    return z3.And(conj) if conj else z3.BoolVal(True)


def parse_where(sql_text):
    """The WHERE expression of a partial index's CREATE INDEX text, or None."""
    toks = tokenize(sql_text)
    for i, t in enumerate(toks):
        if t == ('word', 'WHERE'):
            p = P(toks[i + 1:])
            e = parse_expr(p)
            if not p.done():
                raise Unsupported('trailing tokens after WHERE expression')
            return e
    return None


def parse_checks(table_sql):
    """CHECK expressions declared in a CREATE TABLE text (column and table level)."""
    st = parse_statement(table_sql)
    checks = list(st['checks'])
    for c in st['columns']:
        if c['check'] is not None:
            checks.append(c['check'])
    return checks
