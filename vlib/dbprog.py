"""Evolution "programs" for the E2 engine: start model set + mutation list, run through the real
django-evolution SQL generator (concretely), plus a reference semantics on model *specs* that
says what the evolved models are, so that the freshly created schema can be built by Django
itself.

A spec is {model name: {'db_table': str|None, 'fields': OrderedDict(name -> fdict),
                         'unique_together': [...], 'index_together': [...],
                         'indexes': [idict], 'constraints': [cdict]}}
fdict: {'type': 'Char'|'Integer'|..., 'null': bool, 'max_length': int, 'db_index': bool,
        'unique': bool, 'db_column': str|None, 'to': model name (relations), 'db_table': (M2M)}
"""
import copy
import os
from collections import OrderedDict

from vlib import boot  # noqa

from django.apps.registry import Apps
from django.db import connections, models
from django.db.models import Q

from django_evolution.db.state import DatabaseState
from django_evolution.mutations import (AddField, ChangeField, ChangeMeta, DeleteApplication,
                                        DeleteField, DeleteModel, RenameField, RenameModel)
from django_evolution.mutators import AppMutator
from django_evolution.signature import AppSignature, ModelSignature, ProjectSignature
from django_evolution.utils.sql import SQLExecutor

APP = 'vapp'
FIELD_TYPES = {
    'Char': models.CharField, 'Text': models.TextField, 'Integer': models.IntegerField,
    'BigInteger': models.BigIntegerField, 'PositiveInteger': models.PositiveIntegerField,
    'Boolean': models.BooleanField, 'Decimal': models.DecimalField,
    'DateTime': models.DateTimeField, 'ForeignKey': models.ForeignKey,
    'OneToOne': models.OneToOneField, 'ManyToMany': models.ManyToManyField,
}
RELATIONS = ('ForeignKey', 'OneToOne', 'ManyToMany')


def fdict(type_, **kw):
    d = {'type': type_}
    d.update(kw)
    return d


def field_kwargs(fd):
    kw = {}
    t = fd['type']
    for k in ('null', 'db_index', 'unique', 'db_column'):
        if k in fd and fd[k] is not None:
            kw[k] = fd[k]
    if t == 'Char':
        kw['max_length'] = fd.get('max_length', 20)
    if t == 'Decimal':
        kw['max_digits'] = fd.get('max_digits', 8)
        kw['decimal_places'] = fd.get('decimal_places', 2)
    if t == 'ManyToMany':
        kw.pop('null', None)
        if fd.get('db_table'):
            kw['db_table'] = fd['db_table']
    return kw


def build_models(spec, app_label=APP):
    """Dynamic model classes for a spec, in an isolated app registry."""
    registry = Apps()
    classes = OrderedDict()
    for name, md in spec.items():
        attrs = {'__module__': '%s.models' % app_label}
        for fname, fd in md['fields'].items():
            cls = FIELD_TYPES[fd['type']]
            kw = field_kwargs(fd)
            if fd['type'] in RELATIONS:
                kw['related_name'] = '+'
                if fd['type'] == 'ManyToMany':
                    attrs[fname] = cls('%s.%s' % (app_label, fd['to']), **kw)
                else:
                    attrs[fname] = cls('%s.%s' % (app_label, fd['to']), on_delete=models.CASCADE, **kw)
            else:
                attrs[fname] = cls(**kw)
        meta = {'app_label': app_label, 'apps': registry}
        if md.get('db_table'):
            meta['db_table'] = md['db_table']
        if md.get('unique_together'):
            meta['unique_together'] = [tuple(x) for x in md['unique_together']]
        if md.get('index_together'):
            meta['index_together'] = [tuple(x) for x in md['index_together']]
        if md.get('indexes'):
            meta['indexes'] = [make_index(i) for i in md['indexes']]
        if md.get('constraints'):
            meta['constraints'] = [make_constraint(c) for c in md['constraints']]
        attrs['Meta'] = type('Meta', (), meta)
        import warnings
        with warnings.catch_warnings():
            warnings.simplefilter('ignore')
            classes[name] = type(str(name), (models.Model,), attrs)
    return classes


def make_index(i):
    kw = {'fields': list(i['fields']), 'name': i['name']}
    if i.get('condition'):
        kw['condition'] = make_q(i['condition'])
    return models.Index(**kw)


def make_q(c):
    """c = (lookup, value) | ('or', c1, c2) | ('and', c1, c2) | ('not', c)"""
    if c[0] == 'or':
        return make_q(c[1]) | make_q(c[2])
    if c[0] == 'and':
        return make_q(c[1]) & make_q(c[2])
    if c[0] == 'not':
        return ~make_q(c[1])
    return Q(**{c[0]: c[1]})


def make_constraint(c):
    if c['kind'] == 'unique':
        kw = {'fields': tuple(c['fields']), 'name': c['name']}
        if c.get('condition'):
            kw['condition'] = make_q(c['condition'])
        return models.UniqueConstraint(**kw)
    return models.CheckConstraint(check=make_q(c['check']), name=c['name'])


def project_sig(classes, app_label=APP):
    proj = ProjectSignature()
    app = AppSignature(app_id=app_label)
    proj.add_app_sig(app)
    for cls in classes.values():
        app.add_model_sig(ModelSignature.from_model(cls))
    return proj


# ------------------------------------------------------------------------------------------
# mutation descriptors -> real mutations, and the reference semantics on specs

def to_mutation(d):
    k = d['op']
    if k == 'add':
        fd = d['field']
        kw = field_kwargs(fd)
        kw.pop('related_name', None)
        if fd['type'] in RELATIONS:
            kw['related_model'] = '%s.%s' % (APP, fd['to'])
        return AddField(d['model'], d['name'], FIELD_TYPES[fd['type']],
                        initial=d.get('initial'), **kw)
    if k == 'change':
        return ChangeField(d['model'], d['name'], initial=d.get('initial'), **d['attrs'])
    if k == 'delete':
        return DeleteField(d['model'], d['name'])
    if k == 'rename':
        return RenameField(d['model'], d['name'], d['new'], db_column=d.get('db_column'),
                           db_table=d.get('db_table'))
    if k == 'meta':
        val = d['value']
        if d['prop'] == 'indexes':
            val = [dict(fields=list(i['fields']), name=i['name'],
                        **({'condition': make_q(i['condition'])} if i.get('condition') else {}))
                   for i in val]
        elif d['prop'] == 'constraints':
            out = []
            for c in val:
                if c['kind'] == 'unique':
                    e = {'type': models.UniqueConstraint, 'name': c['name'],
                         'fields': tuple(c['fields'])}
                    if c.get('condition'):
                        e['condition'] = make_q(c['condition'])
                else:
                    e = {'type': models.CheckConstraint, 'name': c['name'],
                         'check': make_q(c['check'])}
                out.append(e)
            val = out
        return ChangeMeta(d['model'], d['prop'], val)
    if k == 'rename_model':
        return RenameModel(d['model'], d['new'], db_table=d['db_table'])
    if k == 'delete_model':
        return DeleteModel(d['model'])
    if k == 'delete_app':
        return DeleteApplication()
    raise ValueError(k)


def table_of(spec, name):
    return spec[name].get('db_table') or ('%s_%s' % (APP, name.lower()))


def _meta_fields(md):
    """Field names referenced by the Meta options of a model spec."""
    out = set()
    for e in md.get('unique_together', []) or []:
        out.update(e)
    for e in md.get('index_together', []) or []:
        out.update(e)
    for i in md.get('indexes', []) or []:
        out.update(f.lstrip('-') for f in i['fields'])
        if i.get('condition'):
            out.update(_q_fields(i['condition']))
    for c in md.get('constraints', []) or []:
        if c['kind'] == 'unique':
            out.update(c['fields'])
            if c.get('condition'):
                out.update(_q_fields(c['condition']))
        else:
            out.update(_q_fields(c['check']))
    return out


def _q_fields(c):
    if c[0] in ('or', 'and'):
        return _q_fields(c[1]) | _q_fields(c[2])
    if c[0] == 'not':
        return _q_fields(c[1])
    return set([c[0].split('__')[0]])


def check_valid(spec):
    """Django itself rejects models whose Meta options name missing fields: such specs have no
    "freshly created" counterpart, so programs leading to them are invalid input."""
    for name, md in spec.items():
        missing = _meta_fields(md) - set(md['fields']) - set(['id'])
        if missing:
            raise KeyError('Meta of %s names missing fields %s' % (name, sorted(missing)))
        for fd in md['fields'].values():
            if fd.get('to') and fd['to'] not in spec:
                raise KeyError('relation to missing model %s' % fd['to'])


def apply_to_spec(spec, d):
    """Reference semantics: what the models look like after the mutation."""
    return _apply_to_spec(spec, d)


def _apply_to_spec(spec, d):
    spec = copy.deepcopy(spec)
    k = d['op']
    if k == 'add':
        spec[d['model']]['fields'][d['name']] = copy.deepcopy(d['field'])
    elif k == 'change':
        spec[d['model']]['fields'][d['name']].update(d['attrs'])
    elif k == 'delete':
        md = spec[d['model']]
        del md['fields'][d['name']]
        md['unique_together'] = [t for t in
                                 (tuple(f for f in e if f != d['name'])
                                  for e in md.get('unique_together', [])) if t]
    elif k == 'rename':
        md = spec[d['model']]
        fd = md['fields'][d['name']]
        items = [(d['new'] if n == d['name'] else n, f) for n, f in md['fields'].items()]
        md['fields'] = OrderedDict(items)
        if fd['type'] == 'ManyToMany':
            fd['db_table'] = d.get('db_table')
        else:
            fd['db_column'] = d.get('db_column')
    elif k == 'meta':
        spec[d['model']][d['prop']] = copy.deepcopy(d['value'])
    elif k == 'rename_model':
        items = []
        for n, md in spec.items():
            if n == d['model']:
                md['db_table'] = d['db_table']
                items.append((d['new'], md))
            else:
                items.append((n, md))
        spec = OrderedDict(items)
        for md in spec.values():
            for fd in md['fields'].values():
                if fd.get('to') == d['model']:
                    fd['to'] = d['new']
    elif k == 'delete_model':
        del spec[d['model']]
    elif k == 'delete_app':
        spec = OrderedDict()
    return spec


def evolved_spec(spec, muts):
    for d in muts:
        spec = apply_to_spec(spec, d)
    check_valid(spec)
    return spec


# ------------------------------------------------------------------------------------------
# running things against the real databases

def reset_db(alias):
    conn = connections[alias]
    with conn.cursor() as c:
        c.execute('PRAGMA foreign_keys = OFF')
        c.execute("SELECT name FROM sqlite_master WHERE type='table' AND name NOT LIKE 'sqlite_%'")
        for (name,) in c.fetchall():
            c.execute('DROP TABLE IF EXISTS "%s"' % name)


def create_tables(classes, alias):
    conn = connections[alias]
    with conn.schema_editor() as editor:
        for cls in classes.values():
            editor.create_model(cls)


def master(alias):
    conn = connections[alias]
    with conn.cursor() as c:
        c.execute("SELECT type, name, tbl_name, sql FROM sqlite_master "
                  "WHERE name NOT LIKE 'sqlite_%' ORDER BY type DESC, name")
        return [tuple(r) for r in c.fetchall()]


def flatten_sql(sql, alias='default'):
    """Exactly the (statement, params) list SQLExecutor would issue (callables resolved)."""
    with SQLExecutor(alias) as ex:
        return [(s, p) for (s, p, _t, _n) in ex._prepare_sql(sql)]


def generate(spec, muts, alias='default', batch=True):
    """Create the start tables in `alias`, run the mutations through the real AppMutator and
    return (project signature after, list of sql lists)."""
    reset_db(alias)
    classes = build_models(spec)
    create_tables(classes, alias)
    proj = project_sig(classes)
    state = DatabaseState(alias, scan=True)
    objs = [to_mutation(d) for d in muts]
    out = []
    if batch:
        am = AppMutator(app_label=APP, project_sig=proj, database_state=state, database=alias)
        am.run_mutations(objs)
        out.append(am.to_sql())
        proj = am.project_sig
    else:
        for o in objs:
            am = AppMutator(app_label=APP, project_sig=proj, database_state=state, database=alias)
            am.run_mutations([o])
            out.append(am.to_sql())
    return proj, out


def execute(sql, alias='default'):
    with SQLExecutor(alias, check_constraints=False) as ex:
        ex.run_sql(sql, execute=True)


def generated_statement_lists():
    """(name, setup statements, evolution statements) triples for the C07 fault harness: the real
    generators produce both the table creation SQL and the evolution SQL."""
    out = []
    base = OrderedDict()
    base['Anchor'] = {'fields': OrderedDict([('value', fdict('Integer'))])}
    base['Item'] = {'fields': OrderedDict([
        ('name', fdict('Char', max_length=20)),
        ('count', fdict('Integer', null=True, db_index=True)),
        ('flag', fdict('Boolean')),
        ('ref', fdict('ForeignKey', to='Anchor', null=True)),
    ]), 'unique_together': [('name', 'flag')]}
    progs = [
        ('rebuild_add_change_delete', [
            {'op': 'add', 'model': 'Item', 'name': 'extra', 'field': fdict('Integer'), 'initial': 7},
            {'op': 'change', 'model': 'Item', 'name': 'count', 'attrs': {'null': False}, 'initial': 3},
            {'op': 'delete', 'model': 'Item', 'name': 'flag'},
        ]),
        ('add_m2m_and_index', [
            {'op': 'add', 'model': 'Item', 'name': 'anchors', 'field': fdict('ManyToMany', to='Anchor')},
            {'op': 'change', 'model': 'Item', 'name': 'name', 'attrs': {'db_index': True}},
        ]),
        ('rename_and_meta', [
            {'op': 'rename', 'model': 'Item', 'name': 'name', 'new': 'title'},
            {'op': 'meta', 'model': 'Item', 'prop': 'index_together', 'value': [('count', 'flag')]},
        ]),
    ]
    plan = [(name, base, muts) for name, muts in progs]
    # every single mutation of the E2 alphabet on its base model sets (the lists the real generator
    # emits for them), as far as they are valid and have at least two statements:
    # quick: base `plain`; thorough: `plain` and `custom`
    from vlib import e2run
    specs = e2run.base_specs()
    bases = ('plain', 'custom') if os.environ.get('VERIF_TIER') == 'thorough' else ('plain',)
    for bname in bases:
        for i, m in enumerate(e2run.mutation_alphabet(specs[bname])):
            plan.append(('%s_%d' % (bname, i), specs[bname], [m]))
    for name, pbase, muts in plan:
        try:
            if pbase is not base:
                evolved_spec(pbase, muts)
            _proj, sqls = generate(pbase, muts)
        except Exception:
            if pbase is base:
                raise
            continue
        stmts = flatten_sql(sqls[0])
        if pbase is not base and len(stmts) < 2:
            continue
        # setup = schema of the start database + two rows
        reset_db('default')
        classes = build_models(pbase)
        create_tables(classes, 'default')
        setup = [r[3] + ';' for r in master('default') if r[3]]
        if pbase is not base:
            out.append((name, setup, [(s, p) if p else s for (s, p) in stmts]))
            continue
        setup += [
            'INSERT INTO "vapp_anchor" ("id", "value") VALUES (1, 10);',
            'INSERT INTO "vapp_item" ("id", "name", "count", "flag", "ref_id") VALUES (1, \'a\', NULL, 1, 1);',
            'INSERT INTO "vapp_item" ("id", "name", "count", "flag", "ref_id") VALUES (2, \'b\', 5, 0, NULL);',
        ]
        out.append((name, setup, [(s, p) if p else s for (s, p) in stmts]))
    reset_db('default')
    return out
