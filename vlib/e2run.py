"""Program enumeration, per-program analysis, replay and evidence for the E2 checks (C01, C02)."""
import copy
import hashlib
import itertools
import json
import multiprocessing as mp
import os
import random
import sys
import time
import traceback
from collections import OrderedDict

VERIF = '/verif'
KF_FILE = os.path.join(VERIF, 'known_findings.json')


def _f(type_, **kw):
    d = {'type': type_}
    d.update(kw)
    return d


def base_specs():
    item_fields = lambda: OrderedDict([
        ('name', _f('Char', max_length=20)),
        ('count', _f('Integer', null=True, db_index=True)),
        ('flag', _f('Boolean')),
        ('ref', _f('ForeignKey', to='Anchor', null=True)),
    ])
    anchor = lambda: {'fields': OrderedDict([('value', _f('Integer'))])}
    specs = OrderedDict()
    b = OrderedDict()
    b['Anchor'] = anchor()
    b['Item'] = {'fields': item_fields()}
    specs['plain'] = b
    b = OrderedDict()
    b['Anchor'] = anchor()
    b['Item'] = {'fields': item_fields(), 'unique_together': [('name', 'flag')],
                 'index_together': [('count', 'flag')]}
    specs['togethers'] = b
    b = OrderedDict()
    b['Anchor'] = anchor()
    b['Item'] = {'fields': item_fields(),
                 'indexes': [{'fields': ['name'], 'name': 'ix_name'},
                             {'fields': ['flag'], 'name': 'ix_flag_part',
                              'condition': ('count__gt', 5)}],
                 'constraints': [{'kind': 'unique', 'fields': ['name', 'count'], 'name': 'uc_nc'},
                                 {'kind': 'check', 'check': ('count__gte', 0), 'name': 'ck_cnt'}]}
    specs['meta_indexes'] = b
    b = OrderedDict()
    b['Anchor'] = anchor()
    f = item_fields()
    f['name'] = _f('Char', max_length=20, unique=True)
    f['count'] = _f('Integer', null=True, db_column='cnt_col', db_index=True)
    f['memo'] = _f('Char', max_length=30, null=True, db_column='memo_col')
    f['tags'] = _f('ManyToMany', to='Anchor')
    f['owner'] = _f('OneToOne', to='Anchor', null=True)
    b['Item'] = {'fields': f, 'db_table': 'custom_item'}
    specs['custom'] = b
    b = OrderedDict()
    b['Anchor'] = anchor()
    b['Item'] = {'fields': OrderedDict([
        ('name', _f('Text')),
        ('count', _f('PositiveInteger', null=True, db_index=True)),
        ('flag', _f('Boolean')),
        ('ref', _f('OneToOne', to='Anchor', null=True)),
        ('amount', _f('Decimal', max_digits=8, decimal_places=2, null=True)),
        ('big', _f('BigInteger', unique=True)),
        ('when', _f('DateTime', null=True)),
    ])}
    specs['types'] = b
    return specs


def mutation_alphabet(spec):
    """Single mutations on the base spec (not all valid on every base; invalid ones are skipped
    when the real simulation or the reference semantics rejects them)."""
    A = []
    A.append({'op': 'add', 'model': 'Item', 'name': 'extra', 'field': _f('Integer'), 'initial': 7})
    A.append({'op': 'add', 'model': 'Item', 'name': 'note', 'field': _f('Char', max_length=10),
              'initial': "it's 100%"})
    A.append({'op': 'add', 'model': 'Item', 'name': 'opt', 'field': _f('Integer', null=True)})
    A.append({'op': 'add', 'model': 'Item', 'name': 'opt2', 'field': _f('Integer', null=True, db_index=True),
              'initial': -1})
    A.append({'op': 'add', 'model': 'Item', 'name': 'ref2', 'field': _f('ForeignKey', to='Anchor', null=True)})
    A.append({'op': 'add', 'model': 'Item', 'name': 'anchors', 'field': _f('ManyToMany', to='Anchor')})
    A.append({'op': 'add', 'model': 'Item', 'name': 'ok', 'field': _f('Boolean'), 'initial': True})
    A.append({'op': 'add', 'model': 'Anchor', 'name': 'label', 'field': _f('Char', max_length=5),
              'initial': ''})
    A.append({'op': 'change', 'model': 'Item', 'name': 'count', 'attrs': {'null': False}, 'initial': 3})
    A.append({'op': 'change', 'model': 'Item', 'name': 'name', 'attrs': {'max_length': 30}})
    A.append({'op': 'change', 'model': 'Item', 'name': 'name', 'attrs': {'db_index': True}})
    A.append({'op': 'change', 'model': 'Item', 'name': 'count', 'attrs': {'db_index': False}})
    A.append({'op': 'change', 'model': 'Item', 'name': 'flag', 'attrs': {'db_index': True}})
    A.append({'op': 'change', 'model': 'Item', 'name': 'ref', 'attrs': {'null': False}, 'initial': 1})
    A.append({'op': 'change', 'model': 'Item', 'name': 'flag', 'attrs': {'null': True}})
    A.append({'op': 'change', 'model': 'Item', 'name': 'ref', 'attrs': {'db_index': False}})
    A.append({'op': 'change', 'model': 'Item', 'name': 'memo', 'attrs': {'max_length': 50}, 'initial': 'n/a'})
    A.append({'op': 'change', 'model': 'Item', 'name': 'memo', 'attrs': {'null': False}, 'initial': ''})
    A.append({'op': 'change', 'model': 'Item', 'name': 'amount', 'attrs': {'null': False}, 'initial': 0})
    A.append({'op': 'change', 'model': 'Item', 'name': 'big', 'attrs': {'unique': False}})
    A.append({'op': 'delete', 'model': 'Item', 'name': 'when'})
    A.append({'op': 'add', 'model': 'Item', 'name': 'price', 'field': _f('Decimal', max_digits=6, decimal_places=1, null=True)})
    A.append({'op': 'add', 'model': 'Item', 'name': 'pos', 'field': _f('PositiveInteger'), 'initial': 5})
    for fname in ('name', 'count', 'flag', 'ref'):
        A.append({'op': 'delete', 'model': 'Item', 'name': fname})
    A.append({'op': 'rename', 'model': 'Item', 'name': 'name', 'new': 'title'})
    A.append({'op': 'rename', 'model': 'Item', 'name': 'count', 'new': 'cnt', 'db_column': 'c2'})
    A.append({'op': 'rename', 'model': 'Item', 'name': 'ref', 'new': 'anchor'})
    A.append({'op': 'rename', 'model': 'Item', 'name': 'flag', 'new': 'enabled'})
    A.append({'op': 'meta', 'model': 'Item', 'prop': 'unique_together', 'value': [('name', 'count')]})
    A.append({'op': 'meta', 'model': 'Item', 'prop': 'unique_together', 'value': []})
    A.append({'op': 'meta', 'model': 'Item', 'prop': 'index_together', 'value': [('name', 'flag')]})
    A.append({'op': 'meta', 'model': 'Item', 'prop': 'index_together', 'value': []})
    A.append({'op': 'meta', 'model': 'Item', 'prop': 'indexes',
              'value': [{'fields': ['count', 'flag'], 'name': 'ix_cf'}]})
    A.append({'op': 'meta', 'model': 'Item', 'prop': 'indexes', 'value': []})
    A.append({'op': 'meta', 'model': 'Item', 'prop': 'constraints',
              'value': [{'kind': 'unique', 'fields': ['flag', 'count'], 'name': 'uc_fc'}]})
    A.append({'op': 'meta', 'model': 'Item', 'prop': 'constraints', 'value': []})
    A.append({'op': 'rename_model', 'model': 'Item', 'new': 'Thing', 'db_table': 'vapp_thing'})
    A.append({'op': 'rename_model', 'model': 'Anchor', 'new': 'Base', 'db_table': 'vapp_base'})
    A.append({'op': 'delete_model', 'model': 'Item'})
    # second generation of entries (appended so that earlier program ids keep their meaning)
    A.append({'op': 'add', 'model': 'Item', 'name': 'code', 'field': _f('Char', max_length=8, null=True, unique=True)})
    A.append({'op': 'add', 'model': 'Item', 'name': 'slug', 'field': _f('Char', max_length=8, db_index=True),
              'initial': 'x'})
    A.append({'op': 'add', 'model': 'Item', 'name': 'seen', 'field': _f('DateTime', null=True)})
    A.append({'op': 'add', 'model': 'Item', 'name': 'huge', 'field': _f('BigInteger'), 'initial': 2 ** 40})
    A.append({'op': 'add', 'model': 'Item', 'name': 'one', 'field': _f('OneToOne', to='Anchor', null=True)})
    A.append({'op': 'change', 'model': 'Item', 'name': 'amount', 'attrs': {'max_digits': 10}})
    A.append({'op': 'delete', 'model': 'Item', 'name': 'big'})
    A.append({'op': 'delete', 'model': 'Item', 'name': 'tags'})
    A.append({'op': 'rename', 'model': 'Item', 'name': 'tags', 'new': 'labels'})
    A.append({'op': 'delete', 'model': 'Item', 'name': 'owner'})
    A.append({'op': 'rename', 'model': 'Anchor', 'name': 'value', 'new': 'val'})
    A.append({'op': 'add', 'model': 'Item', 'name': 'ref3', 'field': _f('ForeignKey', to='Anchor', null=True),
              'initial': 1})
    return A


def retarget(m, renamed):
    """Later mutations address a renamed model/field by its new name."""
    m = copy.deepcopy(m)
    if m.get('model') in renamed.get('models', {}):
        m['model'] = renamed['models'][m['model']]
    return m


def enumerate_programs(tier, seed):
    """-> list of (program id, base name, mutation list)."""
    progs = []
    for bname, spec in base_specs().items():
        A = mutation_alphabet(spec)
        for i, a in enumerate(A):
            progs.append(('%s/%d' % (bname, i), bname, [a]))
        for i, a in enumerate(A):
            for j, b in enumerate(A):
                if i == j:
                    continue
                if a['op'] == 'delete_model':
                    continue
                b2 = b
                if a['op'] == 'rename_model' and b.get('model') == a['model']:
                    b2 = dict(b, model=a['new'])
                if a['op'] == 'rename' and b.get('model') == a['model'] and b.get('name') == a['name'] \
                        and b['op'] in ('change', 'delete', 'rename'):
                    b2 = dict(b, name=a['new'])
                progs.append(('%s/%d-%d' % (bname, i, j), bname, [a, b2]))
    if tier == 'thorough':
        # fixed seed: the known-findings list is tied to the enumerated set of programs, so the
        # thorough tier does not vary with VERIF_SEED (stated in the evidence)
        rnd = random.Random(20260927)
        for bname, spec in base_specs().items():
            A = mutation_alphabet(spec)
            for n in range(1500):
                L = rnd.choice([3, 3, 4])
                idx = [rnd.randrange(len(A)) for _ in range(L)]
                muts = []
                models_map, fields_map = {}, {}
                for ix in idx:
                    m = copy.deepcopy(A[ix])
                    if m.get('model') in models_map:
                        m['model'] = models_map[m['model']]
                    key = (m.get('model'), m.get('name'))
                    if m['op'] in ('change', 'delete', 'rename') and key in fields_map:
                        m['name'] = fields_map[key]
                    if m['op'] == 'rename_model':
                        models_map[A[ix]['model']] = m['new']
                    if m['op'] == 'rename':
                        fields_map[(m['model'], A[ix]['name'])] = m['new']
                    muts.append(m)
                progs.append(('%s/r%d:%s' % (bname, n, '-'.join(map(str, idx))), bname, muts))
    return progs


# ------------------------------------------------------------------------------ worker

def _init_worker():
    sys.path.insert(0, VERIF)
    import logging
    logging.disable(logging.CRITICAL)      # the generator logs tracebacks of the crashes we record
    from vlib import boot  # noqa
    from django.db import connections
    for a in connections:
        connections[a].close()
        connections[a].ensure_connection()


def classify_c01(spec, muts, stmts, ev, fr, struct, acc_result):
    """Known-finding regions for C01. Returns the region name or None."""
    from vlib import dbprog as D
    rebuilt = set()
    for (sql, _p) in stmts:
        if sql.startswith('CREATE TABLE "TEMP_TABLE"'):
            pass
    # tables that were rebuilt: a DROP TABLE followed by ALTER TABLE "TEMP_TABLE" RENAME TO that name
    for (sql, _p) in stmts:
        if sql.startswith('ALTER TABLE "TEMP_TABLE" RENAME TO '):
            rebuilt.add(sql.split('RENAME TO ')[1].strip(' ;"'))
    if not rebuilt:
        return None
    # everything the evolved catalog is missing must be an index/unique of a rebuilt table that
    # stems from Meta.unique_together / index_together / indexes / constraints
    for t in set(ev) | set(fr):
        if t not in ev or t not in fr:
            return None
        a, b = ev[t], fr[t]
        if dict(a['columns']) != dict(b['columns']) or sorted(a['fks']) != sorted(b['fks']):
            return None
        ua, ub = set(map(repr, a['uniques'])), set(map(repr, b['uniques']))
        ia, ib = set(map(repr, a['indexes'])), set(map(repr, b['indexes']))
        ca, cb = set(map(repr, a['checks'])), set(map(repr, b['checks']))
        if (ua - ub) or (ia - ib) or (ca - cb):
            return None                      # evolved has something fresh does not: not this finding
        if (ub - ua or ib - ia or cb - ca) and t not in rebuilt:
            return None
    return 'c01_rebuild_drops_meta_indexes'


def op_descr(m):
    k = m['op']
    if k == 'add':
        fd = m['field']
        return 'add:%s%s%s%s' % (fd['type'], ':idx' if fd.get('db_index') else '',
                                 ':null' if fd.get('null') else '', ':init' if m.get('initial') is not None else '')
    if k == 'change':
        return 'change:%s:%s' % (m['name'], ','.join('%s=%s' % (a, v) for a, v in sorted(m['attrs'].items())))
    if k in ('delete', 'rename'):
        return '%s:%s' % (k, m['name'])
    if k == 'meta':
        return 'meta:%s:%s' % (m['prop'], 'set' if m['value'] else 'clear')
    if k == 'rename_model':
        return 'rename_model:%s' % m['model']
    return k


def diff_kinds(ev, fr, struct, replay, detail):
    kinds = []
    if detail.startswith('executing the generated SQL failed'):
        msg = detail.split('failed: ', 1)[1]
        import re
        msg = re.sub(r'_[0-9a-f]{8}', '_H', msg)
        return ['exec:' + msg[:80]]
    if set(ev) != set(fr):
        kinds.append('tables')
    for t in sorted(set(ev) & set(fr)):
        a, b = ev[t], fr[t]
        if dict(a['columns']) != dict(b['columns']):
            kinds.append('columns:%s' % t)
        ia, ib = [repr(i) for i in a['indexes']], [repr(i) for i in b['indexes']]
        for i in sorted(set(ia + ib)):
            if ia.count(i) < ib.count(i):
                kinds.append('plain_index_missing:%s:%s' % (t, i))
            elif ia.count(i) > ib.count(i):
                kinds.append('plain_index_extra:%s:%s' % (t, i))
        if sorted(a['fks']) != sorted(b['fks']):
            kinds.append('fks:%s' % t)
        ua, ub = set(map(repr, a['uniques'])), set(map(repr, b['uniques']))
        for u in sorted(ub - ua):
            kinds.append('unique_missing:%s:%s' % (t, u))
        for u in sorted(ua - ub):
            kinds.append('unique_extra:%s:%s' % (t, u))
        ca, cb = set(map(repr, a['checks'])), set(map(repr, b['checks']))
        for c in sorted(cb - ca):
            kinds.append('check_missing:%s' % t)
        for c in sorted(ca - cb):
            kinds.append('check_extra:%s' % t)
    if not kinds and replay and replay.get('kind') == 'acceptance':
        kinds.append('accept:%s' % ('fresh_stricter' if replay.get('evolved_accepts') else 'evolved_stricter'))
    return kinds


def op_kind(m):
    k = m['op']
    if k == 'change':
        return 'change:' + ','.join(sorted(m['attrs']))
    if k == 'meta':
        return 'meta:' + m['prop']
    if k == 'add':
        return 'add:' + ('m2m' if m['field']['type'] == 'ManyToMany' else 'col')
    return k


def signature(rec):
    """Identity of a finding: base model set | kinds of mutations involved | kinds of difference.
    Coarser than the program, finer than the root cause."""
    import re
    kinds = sorted(set(k.split(':')[0] if not k.startswith(('exec', 'gen')) else re.sub(r': .*', '', k)
                       for k in rec.get('diff_kinds', [])))
    ops = ' + '.join(sorted(set(op_kind(m) for m in rec['muts'])))
    if '/r' in rec['id']:
        ops = '*'       # seeded random sequences: identified by base and kind of difference only
    return '%s | %s | %s' % (rec['base'], ops, ' + '.join(kinds))


def analyse(args):
    """Runs in a worker: one program, one property."""
    prop, pid, bname, muts = args
    from vlib import dbprog as D
    from vlib import e2 as E
    from vlib import sqlsmt as S
    from django_evolution.errors import EvolutionException
    from django.core.exceptions import FieldDoesNotExist
    spec = base_specs()[bname]
    rec = {'id': pid, 'base': bname, 'muts': muts, 'status': None}
    t0 = time.time()
    try:
        try:
            final_spec = D.evolved_spec(spec, muts)
        except (KeyError, ValueError) as e:
            rec['status'] = 'invalid'
            rec['detail'] = 'reference semantics: %r' % (e,)
            return rec
        try:
            D.reset_db('default')
            classes = D.build_models(spec)
            D.create_tables(classes, 'default')
            start_master = D.master('default')
            proj, sqls = D.generate(spec, muts)
            stmts = D.flatten_sql(sqls[0])
        except EvolutionException as e:
            rec['status'] = 'invalid'
            rec['detail'] = 'rejected by the real code: %s' % (str(e)[:200],)
            return rec
        except Exception as e:
            if not isinstance(e, FieldDoesNotExist) and '/r' in pid:
                # seeded random sequence that the real code does not survive (e.g. renaming a field
                # onto itself): counted, not analysed; the systematic programs never end up here
                rec['status'] = 'invalid'
                rec['detail'] = 'random sequence crashed the generator: %s: %s' % (type(e).__name__, str(e)[:150])
                rec['crash'] = True
                return rec
            if not isinstance(e, FieldDoesNotExist):
                # the real generator crashed on a program it accepted (no evolution error)
                if prop != 'C01':
                    rec['status'] = 'invalid'
                    rec['detail'] = 'generator crashed (reported under C01): %s' % type(e).__name__
                    return rec
                rec['status'] = 'violation'
                rec['detail'] = 'generating the SQL failed: %s: %s' % (type(e).__name__, str(e)[:150])
                rec['replay'] = {'reproduced': True, 'kind': 'generation'}
                rec['diff_kinds'] = ['gen:%s' % type(e).__name__]
                rec['signature'] = signature(rec)
                return rec
            # a Meta option naming a field that does not exist (any more): Django itself rejects
            # such models, so the program has no "freshly created" counterpart
            rec['status'] = 'invalid'
            rec['detail'] = 'Meta option names a missing field: %s' % (str(e)[:200],)
            return rec
        rec['n_statements'] = len(stmts)
        rec['rebuilds'] = sum(1 for (s, _p) in stmts if s.startswith('CREATE TABLE "TEMP_TABLE"'))
        if prop == 'C02':
            try:
                D.reset_db('default')
                D.create_tables(D.build_models(spec), 'default')
                r = E.data_query(start_master, stmts, spec, muts, E.catalog('default'))
            except S.Unsupported as e:
                rec['status'] = 'unsupported'
                rec['detail'] = str(e)[:300]
                return rec
            rec['solver_s'] = r.get('solver_s', 0.0)
            rec['cells'] = r.get('cells', 0)
            if r['result'] == 'unsat':
                rec['status'] = 'ok'
                # translator validation on a fixed concrete database
                try:
                    dis = E.validate_translation(start_master, E.catalog('default'), stmts, sqls[0], spec)
                except S.Unsupported as e:
                    dis = ['unsupported: %s' % str(e)[:100]]
                rec['translation_validated'] = not dis
                if dis and dis[0].startswith('real execution failed'):
                    rec['status'] = 'invalid'
                    rec['detail'] = 'the generated SQL does not execute (reported under C01): %s' % dis[0][:200]
                elif dis:
                    rec['status'] = 'unsupported'
                    rec['detail'] = 'translator validation disagreement: %s' % '; '.join(dis)[:400]
            elif r['result'] == 'sat':
                rep = replay_c02(spec, muts, sqls[0], r.get('model'))
                rec['detail'] = r['detail']
                rec['replay'] = rep
                rec['status'] = 'violation' if rep['reproduced'] else 'encoding_mismatch'
                if rec['status'] == 'violation':
                    rec['diff_kinds'] = ['data']
                    rec['signature'] = signature(rec)
            else:
                rec['status'] = 'unknown'
        else:
            # execute for real on the (empty) start database
            try:
                D.execute(sqls[0])
            except Exception as e:
                # a sequence that passes through models Django itself would reject (a Meta option
                # naming a field that has just been deleted) is invalid input, whatever follows
                cur, bad_step = spec, False
                for d_ in muts:
                    cur = D.apply_to_spec(cur, d_)
                    try:
                        D.check_valid(cur)
                    except KeyError:
                        bad_step = True
                if bad_step:
                    rec['status'] = 'invalid'
                    rec['detail'] = 'intermediate models invalid; execution failed: %s' % (str(e)[:150],)
                    return rec
                rec['status'] = 'violation'
                rec['detail'] = 'executing the generated SQL failed: %s: %s' % (type(e).__name__, str(e)[:200])
                rec['replay'] = {'reproduced': True, 'kind': 'execution'}
                rec['diff_kinds'] = diff_kinds({}, {}, [], None, rec['detail'])
                rec['signature'] = signature(rec)
                return rec
            try:
                ev = E.catalog('default')
                acc_dis = validate_acceptance('default', ev)
                rec['acceptance_validated'] = not acc_dis
                if acc_dis:
                    rec['status'] = 'unsupported'
                    rec['detail'] = 'acceptance predicate disagrees with real SQLite: %s' % '; '.join(acc_dis)[:300]
                    return rec
                D.reset_db('other')
                D.create_tables(D.build_models(final_spec), 'other')
                fr = E.catalog('other')
                struct = E.structural_diff(ev, fr)
                res, model, dt, vals = E.acceptance_query(ev, fr)
            except S.Unsupported as e:
                rec['status'] = 'unsupported'
                rec['detail'] = str(e)[:300]
                return rec
            rec['solver_s'] = dt
            if res == 'unknown':
                rec['status'] = 'unknown'
            elif res == 'unsat' and not struct:
                rec['status'] = 'ok'
            else:
                rep = {'reproduced': True, 'kind': 'structural'} if struct else \
                    replay_c01(spec, final_spec, sqls[0], model)
                rec['detail'] = '; '.join(struct) if struct else 'acceptance differs for rows %s' % json.dumps(model)[:400]
                rec['replay'] = rep
                if rep['reproduced']:
                    rec['status'] = 'violation'
                    rec['region'] = classify_c01(spec, muts, stmts, ev, fr, struct, res)
                    rec['diff_kinds'] = diff_kinds(ev, fr, struct, rep, rec['detail'])
                    rec['signature'] = signature(rec)
                else:
                    rec['status'] = 'encoding_mismatch'
    except Exception as e:
        rec['status'] = 'error'
        rec['detail'] = traceback.format_exc()[-1200:]
    rec['wall'] = time.time() - t0
    return rec


def _conv(v, typ):
    if v is None:
        return None
    if isinstance(v, int) and v >= 10 ** 29:
        return 's%d' % (v - 10 ** 30)
    if 'char' in typ or 'text' in typ:
        return 'v%d' % v
    return v


def replay_c02(spec, muts, sql, model):
    """Insert the model's rows into a real start database, run the real evolution, compare."""
    from vlib import dbprog as D
    from vlib import e2 as E
    from django.db import connections
    if model is None:
        return {'reproduced': True, 'kind': 'structural'}
    conn = connections['default']
    D.reset_db('default')
    D.create_tables(D.build_models(spec), 'default')
    cat = E.catalog('default')
    start_rows = {}
    try:
        with conn.cursor() as c:
            c.execute('PRAGMA foreign_keys = OFF')
            for t, rows in model.items():
                start_rows[t] = []
                for row in rows:
                    conc = dict((col, _conv(v, cat[t]['columns'][col]['type'])) for col, v in row.items())
                    start_rows[t].append(conc)
                    cols = list(conc)
                    c.execute('INSERT INTO "%s" (%s) VALUES (%s)' % (
                        t, ', '.join('"%s"' % x for x in cols), ', '.join(['%s'] * len(cols))),
                        [conc[x] for x in cols])
    except Exception as e:
        return {'reproduced': False, 'kind': 'rows not insertable: %s' % e}
    try:
        D.execute(sql)
    except Exception as e:
        return {'reproduced': True, 'kind': 'execution failed on these rows: %s' % str(e)[:200],
                'rows': start_rows}
    exp, tables = E.expected_cells(spec, muts)
    bad = []
    with conn.cursor() as c:
        for (ft, fc), e in exp.items():
            try:
                c.execute('SELECT "id", "%s" FROM "%s" ORDER BY "id"' % (fc, ft))
                got = c.fetchall()
            except Exception as ex:
                bad.append((ft, fc, 'unreadable: %s' % ex))
                continue
            t0 = e
            while t0[0] == 'coalesce':
                t0 = t0[1]
            src = tables.get(ft)
            n = len(start_rows.get(src, [])) if src else 0
            # rows are matched through their primary key
            ids = sorted(r['id'] for r in start_rows.get(src, [])) if src else []
            if len(got) != len(ids):
                bad.append((ft, fc, 'row count %d != %d' % (len(got), len(ids))))
                continue
            by_id = dict((r['id'], i) for i, r in enumerate(start_rows[src]))
            for (rid, val) in got:
                want = E.conc_expected(e, start_rows, by_id[rid])
                if isinstance(want, bool):
                    want = int(want)
                if str(want) != str(val) and not (want is None and val is None):
                    bad.append((ft, fc, 'id=%s got %r want %r' % (rid, val, want)))
    return {'reproduced': bool(bad), 'kind': 'data', 'bad': bad[:6], 'rows': start_rows}


def offer_rows(alias, model):
    """Insert the rows into the (empty) database `alias`; True iff SQLite accepts all of them and
    no foreign key dangles. The rows are removed again."""
    from vlib import e2 as E
    from django.db import connections
    from django.db.utils import IntegrityError, DatabaseError
    conn = connections[alias]
    cat = E.catalog(alias)
    ok = True
    try:
        with conn.cursor() as c:
            c.execute('PRAGMA foreign_keys = OFF')
            try:
                for t, rows in model.items():
                    for row in rows:
                        conc = dict((col, _conv(v, cat[t]['columns'][col]['type'])) for col, v in row.items())
                        cols = list(conc)
                        c.execute('INSERT INTO "%s" (%s) VALUES (%s)' % (
                            t, ', '.join('"%s"' % x for x in cols), ', '.join(['%s'] * len(cols))),
                            [conc[x] for x in cols])
                c.execute('PRAGMA foreign_key_check')
                if c.fetchall():
                    ok = False
            except (IntegrityError, DatabaseError):
                ok = False
            for t in model:
                try:
                    c.execute('DELETE FROM "%s"' % t)
                except Exception:
                    pass
    except Exception:
        ok = False
    return ok


def validate_acceptance(alias, cat):
    """Guard for the acceptance predicate: four fixed contents (valid, duplicated, all-NULL,
    dangling/negative) are offered to the real database and to the predicate; they must agree.
    -> list of disagreements."""
    import z3
    from vlib import e2 as E
    from vlib import sqlsmt as S
    tables = [t for t in cat if list(cat[t]['columns'])]
    out = []
    for kind in ('valid', 'duplicate', 'nulls', 'dangling_negative'):
        rows = {}
        n = 10
        for t in tables:
            fks = dict((f[0], f) for f in cat[t]['fks'])
            trs = []
            for r in range(2):
                row = {}
                for cname, cinfo in cat[t]['columns'].items():
                    n += 1
                    if cinfo['pk']:
                        v = r + 1
                    elif cname in fks:
                        v = 99 if kind == 'dangling_negative' else 1
                    elif cinfo['type'] == 'bool':
                        v = r
                    elif kind == 'nulls':
                        v = None
                    elif kind == 'dangling_negative':
                        v = -n
                    elif kind == 'duplicate':
                        v = 7
                    else:
                        v = n
                    row[cname] = v
                trs.append(row)
            rows[t] = trs
        real = offer_rows(alias, rows)
        vals = S.Values()
        sym = E.sym_rows(dict((t, cat[t]) for t in tables), vals)
        s = z3.Solver()
        for t in tables:
            for r in range(2):
                for cname in cat[t]['columns']:
                    n_, v_ = sym[t][r][cname]
                    v = rows[t][r][cname]
                    s.add(n_ == (v is None))
                    if v is not None:
                        s.add(v_ == v)
        s.add(S.acceptance(dict((t, cat[t]) for t in tables), sym, vals))
        modelled = str(s.check()) == 'sat'
        if modelled != real:
            out.append('%s content: real SQLite %s, predicate %s' % (kind, 'accepts' if real else 'rejects',
                                                                      'accepts' if modelled else 'rejects'))
    return out


def replay_c01(spec, final_spec, sql, model):
    """Offer the model's rows to the evolved and to the freshly created database."""
    from vlib import dbprog as D
    from vlib import e2 as E
    from django.db import connections
    from django.db.utils import IntegrityError, DatabaseError

    def offer(alias):
        conn = connections[alias]
        cat = E.catalog(alias)
        try:
            with conn.cursor() as c:
                c.execute('PRAGMA foreign_keys = OFF')
                for t, rows in model.items():
                    for row in rows:
                        conc = dict((col, _conv(v, cat[t]['columns'][col]['type']))
                                    for col, v in row.items())
                        cols = list(conc)
                        c.execute('INSERT INTO "%s" (%s) VALUES (%s)' % (
                            t, ', '.join('"%s"' % x for x in cols), ', '.join(['%s'] * len(cols))),
                            [conc[x] for x in cols])
                c.execute('PRAGMA foreign_key_check')
                if c.fetchall():
                    return False
            return True
        except (IntegrityError, DatabaseError):
            return False
    D.reset_db('default')
    D.create_tables(D.build_models(spec), 'default')
    D.execute(sql)
    a = offer('default')
    D.reset_db('other')
    D.create_tables(D.build_models(final_spec), 'other')
    b = offer('other')
    return {'reproduced': a != b, 'kind': 'acceptance', 'evolved_accepts': a, 'fresh_accepts': b}


# ------------------------------------------------------------------------------ driver

def load_kf(prop):
    try:
        d = json.load(open(KF_FILE))
    except Exception:
        return []
    return [e for e in d.get('findings', []) if e.get('property') == prop and e.get('engine') == 'E2']


def run(prop, tier):
    t_start = time.time()
    seed = int(os.environ.get('VERIF_SEED', '0'))
    sys.path.insert(0, VERIF)
    progs = enumerate_programs(tier, seed)
    limit = os.environ.get('VERIF_E2_LIMIT')
    if limit:
        progs = progs[:int(limit)]
    from django.db import connections
    for a in connections:
        connections[a].close()
    jobs = [(prop, pid, b, m) for (pid, b, m) in progs]
    ctx = mp.get_context('fork')
    with ctx.Pool(int(os.environ.get('VERIF_JOBS', '16')), initializer=_init_worker) as pool:
        recs = pool.map(analyse, jobs, chunksize=8)
    if os.environ.get('VERIF_E2_DUMP'):
        json.dump(recs, open(os.environ['VERIF_E2_DUMP'], 'w'), default=str)
    kfs = load_kf(prop)
    sig_to_kf = {}
    for e in kfs:
        for sg in e.get('signatures', []):
            sig_to_kf[sg] = e
    counts = {}
    for r in recs:
        counts[r['status']] = counts.get(r['status'], 0) + 1
    violations = [r for r in recs if r['status'] == 'violation']
    known, new = {}, []
    for r in violations:
        e = sig_to_kf.get(r.get('signature'))
        if e is not None:
            known.setdefault(e['id'], []).append(r)
        else:
            new.append(r)
    kf_by_id = dict((e['id'], e) for e in kfs)
    for kid, rs in sorted(known.items()):
        print('KNOWN-FINDING: property=%s %s [%d programs, e.g. %s %s]'
              % (prop, kf_by_id[kid]['what'], len(rs), rs[0]['id'], json.dumps(rs[0]['muts'])[:200]))
    os.makedirs(os.path.join(VERIF, 'replays'), exist_ok=True)
    out_viol = []
    for r in new[:25]:
        h = hashlib.sha1(r['id'].encode()).hexdigest()[:10]
        path = os.path.join(VERIF, 'replays', '%s_e2_%s.py' % (prop, h))
        with open(path, 'w') as f:
            f.write(REPLAY_TMPL % {'prop': prop, 'pid': r['id'], 'base': r['base'],
                                   'muts': repr(r['muts'])})
        os.chmod(path, 0o755)
        print('VIOLATION property=%s replay=%s' % (prop, path))
        print('  program=%s %s' % (r['id'], json.dumps(r['muts'])[:300]))
        print('  detail=%s' % (r.get('detail', '')[:500],))
        out_viol.append({'program': r['id'], 'muts': r['muts'], 'detail': r.get('detail', '')[:500],
                         'replay': path})
    errors = [r for r in recs if r['status'] == 'error']
    for r in errors[:5]:
        print('HARNESS-ERROR property=%s program=%s %s' % (prop, r['id'], r.get('detail', '')[-400:]))
    analysed = [r for r in recs if r['status'] in ('ok', 'violation')]
    samples = []
    for r in (analysed[:2] + [x for x in analysed if x.get('rebuilds')][:2]):
        samples.append({'program': r['id'], 'mutations': r['muts'], 'statements': r.get('n_statements'),
                        'verdict': r['status']})
    ev = {
        'property_id': prop, 'tier': tier, 'seed': seed, 'level': 'translation_validation',
        'coverage': {
            'programs': len(analysed),
            'disagreements_checked': len(violations) + counts.get('encoding_mismatch', 0),
            'samples': samples or [{'note': 'none'}],
            'programs_enumerated': len(recs),
            'invalid_programs': counts.get('invalid', 0),
            'random_sequences_crashing_generator': len([r for r in recs if r.get('crash')]),
            'unsupported_programs': counts.get('unsupported', 0),
            'unsupported_reasons': sorted(set(r.get('detail', '')[:120] for r in recs if r['status'] == 'unsupported'))[:20],
            'encoding_mismatches': [{'program': r['id'], 'detail': r.get('detail', '')[:200], 'replay': r.get('replay')}
                                    for r in recs if r['status'] == 'encoding_mismatch'][:20],
            'unknown': counts.get('unknown', 0),
            'translation_validated_programs': len([r for r in recs if r.get('translation_validated')]),
            'acceptance_predicate_validated_programs': len([r for r in recs if r.get('acceptance_validated')]),
            'queries': len([r for r in recs if 'solver_s' in r]),
            'solver_s': round(sum(r.get('solver_s', 0) for r in recs), 2),
            'programs_with_rebuild': len([r for r in analysed if r.get('rebuilds')]),
            'rows_per_table': 2,
            'functions_encoded': ['mutators/app_mutator.py AppMutator.run_mutations/to_sql', 'mutators/model_mutator.py',
                                  'db/common.py BaseEvolutionOperations.*', 'db/sqlite3.py SQLiteAlterTableSQLResult.to_sql, EvolutionOperations.*',
                                  'utils/sql.py SQLExecutor._prepare_sql (statement list), run_sql (replay)',
                                  'mutations/*.py mutate()/simulate()'],
            'bounds': 'programs: %d base model sets x all single mutations and all ordered pairs of a %d-entry alphabet%s; table contents: all values/NULLs of 2 rows per table (symbolic)' % (
                len(base_specs()), len(mutation_alphabet(None)), ' + seeded random sequences of length 3-4' if tier == 'thorough' else ''),
            'known_findings_reported': dict((k, len(v)) for k, v in known.items()),
            'violations': out_viol,
            'harness_errors': [r.get('detail', '')[-300:] for r in errors[:5]],
            'exhaustive': False,
            'explanation': 'the quantifier over programs is enumerated (not solved); for each program the quantifier over table contents is decided by z3 (unsat = holds for all contents)',
        },
        'assumptions': ['SQLite backend; 2 symbolic rows per table (all modelled statements act row-wise; uniqueness and foreign keys are pairwise)',
                        'values are integers, strings are mapped injectively to integers; type-affinity conversions, collations and AUTOINCREMENT are not modelled',
                        'the evolved models are computed by the reference semantics on model specs in vlib/dbprog.py (independent of the SQL) and created by Django\'s schema editor'],
        'wall_s': round(time.time() - t_start, 1),
        'violations': len(new),
    }
    evdir = os.environ.get('VERIF_EVIDENCE_DIR', os.path.join(VERIF, 'evidence'))   # experiments only
    os.makedirs(evdir, exist_ok=True)
    json.dump(ev, open(os.path.join(evdir, prop + '.json'), 'w'), indent=1, default=str)
    print('  programs enumerated=%d analysed=%d invalid=%d unsupported=%d encoding_mismatch=%d unknown=%d violations(new)=%d known=%d solver_s=%.1f'
          % (len(recs), len(analysed), counts.get('invalid', 0), counts.get('unsupported', 0),
             counts.get('encoding_mismatch', 0), counts.get('unknown', 0), len(new),
             sum(len(v) for v in known.values()), ev['coverage']['solver_s']))
    if new:
        return 1
    if errors:
        return 3
    print('OK property=%s tier=%s wall=%.0fs' % (prop, tier, ev['wall_s']))
    return 0


REPLAY_TMPL = '''#!/verif/.venv/bin/python
# Replay of an E2 finding: property %(prop)s, program %(pid)s
import sys
sys.path.insert(0, '/verif')
from vlib import e2run
rec = e2run.analyse((%(prop)r, %(pid)r, %(base)r, %(muts)s))
print('REPLAY:', rec['status'], rec.get('detail', '')[:600], rec.get('replay'))
sys.exit(1 if rec['status'] == 'violation' else 0)
'''


# ------------------------------------------------------------------------------ C03 on E2
# batched (one optimised AppMutator run) vs one-at-a-time (one AppMutator per mutation, database
# state rescanned in between, as separate upgrade runs would do): same final schema and row data

def analyse_c03(args):
    pid, bname, muts = args
    from vlib import dbprog as D
    from vlib import e2 as E
    from vlib import sqlsmt as S
    import z3
    from django_evolution.errors import EvolutionException
    from django_evolution.db.state import DatabaseState
    from django_evolution.mutators import AppMutator
    spec = base_specs()[bname]
    rec = {'id': pid, 'base': bname, 'muts': muts, 'status': None}
    try:
        try:
            D.evolved_spec(spec, muts)
        except (KeyError, ValueError):
            rec['status'] = 'invalid'
            return rec
        try:
            # batched
            D.reset_db('default')
            D.create_tables(D.build_models(spec), 'default')
            start_master = D.master('default')
            start_cat = E.catalog('default')
            proj, sqls = D.generate(spec, muts)
            batched = D.flatten_sql(sqls[0])
            D.execute(sqls[0])
            cat_b = E.catalog('default')
            # one at a time
            D.reset_db('default')
            classes = D.build_models(spec)
            D.create_tables(classes, 'default')
            sig = D.project_sig(classes)
            single = []
            for d_ in muts:
                state = DatabaseState('default', scan=True)
                am = AppMutator(app_label=D.APP, project_sig=sig, database_state=state, database='default')
                am.run_mutations([D.to_mutation(d_)])
                sql = am.to_sql()
                single += D.flatten_sql(sql)
                D.execute(sql)
                sig = am.project_sig
            cat_s = E.catalog('default')
        except Exception as e:
            rec['status'] = 'invalid'          # rejected or crashing programs are C01/C12 matters
            rec['detail'] = '%s: %s' % (type(e).__name__, str(e)[:120])
            return rec
        rec['rebuilds_batched'] = sum(1 for (q, _p) in batched if q.startswith('CREATE TABLE "TEMP_TABLE"'))
        rec['rebuilds_single'] = sum(1 for (q, _p) in single if q.startswith('CREATE TABLE "TEMP_TABLE"'))
        kinds = []
        struct = E.structural_diff(cat_b, cat_s)
        try:
            res, model, dt, _vals = E.acceptance_query(cat_b, cat_s)
        except S.Unsupported as e:
            rec['status'] = 'unsupported'
            rec['detail'] = str(e)[:200]
            return rec
        rec['solver_s'] = dt
        if struct or res == 'sat':
            kinds += diff_kinds(cat_b, cat_s, struct, {'kind': 'acceptance', 'evolved_accepts': None}, '')
            kinds = [k.replace('accept:evolved_stricter', 'accept') for k in kinds] or ['accept']
        # data: interpret both statement lists over the same symbolic start contents
        try:
            vals = S.Values()
            states = []
            start_rows = None
            for stmts in (batched, single):
                st = S.DataState(vals, E.NROWS)
                for (typ, name, tbl, sql) in start_master:
                    if typ == 'table':
                        ps = S.parse_statement(sql)
                        st.add_symbolic_table(name, [c['name'] for c in ps['columns']],
                                              [c['name'] for c in ps['columns'] if c['notnull'] or c['pk']])
                if start_rows is None:
                    start_rows = dict((t, [dict(r) for r in st.tables[t]['rows']]) for t in st.tables)
                for (q, params) in stmts:
                    st.run(S.parse_statement(q), params)
                states.append(st)
            a, b = states
            disj = []
            for t in a.tables:
                if t not in b.tables or a.tables[t]['rows'] is None or b.tables[t]['rows'] is None:
                    continue
                for c in a.tables[t]['cols']:
                    if c in b.tables[t]['cols']:
                        for r in range(E.NROWS):
                            disj.append(E.cell_neq(a.tables[t]['rows'][r][c], b.tables[t]['rows'][r][c]))
            rec['cells'] = len(disj)
            if disj:
                s = z3.Solver()
                s.set('timeout', 20000)
                s.add(S.acceptance(dict((t, start_cat[t]) for t in start_cat if t in start_rows), start_rows, vals))
                s.add(z3.Or(disj))
                r = str(s.check())
                if r == 'sat':
                    kinds.append('data')
                elif r != 'unsat':
                    rec['status'] = 'unknown'
                    return rec
        except S.Unsupported as e:
            rec['status'] = 'unsupported'
            rec['detail'] = str(e)[:200]
            return rec
        if rec['rebuilds_batched'] > rec['rebuilds_single']:
            kinds.append('more_rebuilds_batched')
        if kinds:
            rec['status'] = 'violation'
            rec['diff_kinds'] = kinds
            rec['detail'] = 'batched vs one-at-a-time differ: %s' % '; '.join(kinds)[:400]
            rec['signature'] = signature(rec)
        else:
            rec['status'] = 'ok'
    except Exception:
        rec['status'] = 'error'
        rec['detail'] = traceback.format_exc()[-800:]
    return rec


def run_c03(tier):
    """-> (new violations, known-finding lines printed, coverage dict)"""
    sys.path.insert(0, VERIF)
    progs = [(pid, b, m) for (pid, b, m) in enumerate_programs('quick', 0) if len(m) >= 2]
    if tier == 'quick':
        progs = [p for p in progs if p[1] in ('plain', 'custom')]
    from django.db import connections
    for a in connections:
        connections[a].close()
    ctx = mp.get_context('fork')
    with ctx.Pool(int(os.environ.get('VERIF_JOBS', '16')), initializer=_init_worker) as pool:
        recs = pool.map(analyse_c03, progs, chunksize=8)
    if os.environ.get('VERIF_E2_DUMP_C03'):
        json.dump(recs, open(os.environ['VERIF_E2_DUMP_C03'], 'w'), default=str)
    kfs = [e for e in load_kf('C03')]
    sig_to_kf = {}
    for e in kfs:
        for sg in e.get('signatures', []):
            sig_to_kf[sg] = e
    viol = [r for r in recs if r['status'] == 'violation']
    known, new = {}, []
    for r in viol:
        e = sig_to_kf.get(r.get('signature'))
        if e is not None:
            known.setdefault(e['id'], []).append(r)
        else:
            new.append(r)
    for kid, rs in sorted(known.items()):
        e = [x for x in kfs if x['id'] == kid][0]
        print('KNOWN-FINDING: property=C03 %s [%d programs, e.g. %s %s]' % (e['what'], len(rs), rs[0]['id'], json.dumps(rs[0]['muts'])[:160]))
    out = []
    os.makedirs(os.path.join(VERIF, 'replays'), exist_ok=True)
    for r in new[:20]:
        h = hashlib.sha1(r['id'].encode()).hexdigest()[:10]
        path = os.path.join(VERIF, 'replays', 'C03_e2_%s.py' % h)
        with open(path, 'w') as f:
            f.write(REPLAY_C03 % {'pid': r['id'], 'base': r['base'], 'muts': repr(r['muts'])})
        os.chmod(path, 0o755)
        out.append({'obligation': 'e2_batched_vs_single', 'call': '%s %s' % (r['id'], json.dumps(r['muts'])[:300]),
                    'detail': r['detail'], 'replay': path})
    counts = {}
    for r in recs:
        counts[r['status']] = counts.get(r['status'], 0) + 1
    cov = {'programs': counts.get('ok', 0) + counts.get('violation', 0), 'counts': counts,
           'known_findings': dict((k, len(v)) for k, v in known.items()),
           'solver_s': round(sum(r.get('solver_s', 0) for r in recs), 2),
           'programs_batched_fewer_rebuilds': len([r for r in recs if r.get('rebuilds_batched', 0) < r.get('rebuilds_single', 0)]),
           'bounds': 'ordered pairs of the E2 alphabet on %s; 2 symbolic rows per table' % ('bases plain, custom' if tier == 'quick' else 'all five bases'),
           'errors': [r.get('detail', '')[-300:] for r in recs if r['status'] == 'error'][:3]}
    return out, cov


REPLAY_C03 = '''#!/verif/.venv/bin/python
# Replay of an E2 finding for C03 (batched vs one-at-a-time), program %(pid)s
import sys
sys.path.insert(0, '/verif')
from vlib import e2run
rec = e2run.analyse_c03((%(pid)r, %(base)r, %(muts)s))
print('REPLAY:', rec['status'], rec.get('detail', '')[:600])
sys.exit(1 if rec['status'] == 'violation' else 0)
'''
