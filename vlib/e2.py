"""E2 engine: z3 over the SQL that the real django-evolution generator emits (C01, C02).

For each enumerated program (start model spec + mutation list):
  1. the real code (AppMutator + SQLite backend) generates the statement list, concretely;
  2. C02: the statements are interpreted over tables whose cells are z3 variables and z3 decides
     whether any table content makes a surviving/added/changed cell differ from what the
     mutation list demands (computed independently on the specs);
  3. C01: the statements are executed on an empty real database, its catalog is introspected,
     the evolved models (reference semantics on specs) are created from scratch by Django in a
     second database, and z3 decides whether any table content is accepted by exactly one of
     the two catalogs; non-semantic catalog parts (tables, columns, plain indexes, FK targets)
     are compared directly;
  4. every sat answer is replayed against real SQLite with the rows of the model.
"""
import copy
import itertools
import json
import time
from collections import OrderedDict

import z3

from vlib import boot  # noqa
from vlib import dbprog as D
from vlib import sqlsmt as S

from django.db import connections

NROWS = 2


# ------------------------------------------------------------------------------ introspection

def catalog(alias):
    conn = connections[alias]
    cat = {}
    with conn.cursor() as c:
        c.execute("SELECT name, sql FROM sqlite_master WHERE type='table' AND name NOT LIKE 'sqlite_%'")
        tables = c.fetchall()
        for (t, tsql) in tables:
            info = {'columns': OrderedDict(), 'uniques': [], 'indexes': [], 'checks': [], 'fks': [],
                    'sql': tsql}
            c.execute('PRAGMA table_info("%s")' % t)
            for (cid, name, typ, notnull, dflt, pk) in c.fetchall():
                info['columns'][name] = {'type': (typ or '').lower(), 'notnull': bool(notnull),
                                         'pk': bool(pk)}
            c.execute('PRAGMA index_list("%s")' % t)
            for row in c.fetchall():
                iname, unique, origin, partial = row[1], row[2], row[3], row[4]
                if origin == 'pk':
                    continue
                c.execute('PRAGMA index_info("%s")' % iname)
                cols = tuple(r[2] for r in c.fetchall())
                if any(x is None for x in cols):
                    raise S.Unsupported('expression index %s' % iname)
                where = None
                if partial:
                    c.execute("SELECT sql FROM sqlite_master WHERE name=%s", [iname])
                    where = S.parse_where(c.fetchone()[0])
                if unique:
                    info['uniques'].append((cols, where))
                else:
                    info['indexes'].append((cols, where))
            c.execute('PRAGMA foreign_key_list("%s")' % t)
            for row in c.fetchall():
                info['fks'].append((row[3], row[2], row[4]))
            info['checks'] = S.parse_checks(tsql)
            cat[t] = info
    return cat


def structural_diff(ev, fr):
    """Differences in the parts of a catalog that have no acceptance semantics."""
    out = []
    if set(ev) != set(fr):
        out.append('tables differ: evolved-only %s, fresh-only %s'
                   % (sorted(set(ev) - set(fr)), sorted(set(fr) - set(ev))))
    for t in sorted(set(ev) & set(fr)):
        a, b = ev[t], fr[t]
        if dict(a['columns']) != dict(b['columns']):
            ca = dict((k, v) for k, v in a['columns'].items() if b['columns'].get(k) != v)
            cb = dict((k, v) for k, v in b['columns'].items() if a['columns'].get(k) != v)
            out.append('columns of %s differ: evolved %r vs fresh %r' % (t, ca, cb))
        ia = sorted(repr(i) for i in a['indexes'])
        ib = sorted(repr(i) for i in b['indexes'])
        if ia != ib:
            out.append('plain indexes of %s differ: evolved %s vs fresh %s' % (t, ia, ib))
        fa, fb = sorted(a['fks']), sorted(b['fks'])
        if fa != fb:
            out.append('foreign keys of %s differ: evolved %s vs fresh %s' % (t, fa, fb))
    return out


def sym_rows(cat, vals, prefix=''):
    rows = {}
    for t, info in cat.items():
        trs = []
        for r in range(NROWS):
            trs.append(dict((c, (z3.Bool('n_%s_%s_%d' % (t, c, r)), z3.Int('v_%s_%s_%d' % (t, c, r))))
                            for c in info['columns']))
        rows[t] = trs
    return rows


def acceptance_query(ev, fr):
    """-> ('unsat'|'sat'|'unknown', model rows or None, solver seconds)"""
    common = OrderedDict((t, ev[t]) for t in ev if t in fr
                         and list(ev[t]['columns']) and set(ev[t]['columns']) == set(fr[t]['columns']))
    vals = S.Values()
    rows = sym_rows(common, vals)
    ev_c = dict((t, ev[t]) for t in common)
    fr_c = dict((t, fr[t]) for t in common)
    a = S.acceptance(ev_c, rows, vals)
    b = S.acceptance(fr_c, rows, vals)
    s = z3.Solver()
    s.set('timeout', 20000)
    s.add(a != b)
    t0 = time.time()
    r = str(s.check())
    dt = time.time() - t0
    model = None
    if r == 'sat':
        m = s.model()
        model = {}
        for t, trs in rows.items():
            model[t] = []
            for row in trs:
                out = {}
                for c, (n, v) in row.items():
                    isnull = z3.is_true(m.eval(n, model_completion=True))
                    out[c] = None if isnull else m.eval(v, model_completion=True).as_long()
                model[t].append(out)
    return r, model, dt, vals


# ------------------------------------------------------------------------------ C02 reference

def column_of(name, fd):
    if fd['type'] == 'ManyToMany':
        return None
    if fd.get('db_column'):
        return fd['db_column']
    return name + '_id' if fd['type'] in ('ForeignKey', 'OneToOne') else name


def expected_cells(spec, muts):
    """-> {(final table, final column): expr} where expr is ('start', table, col) |
    ('const', value) | ('coalesce', expr, value); plus the set of final tables that must keep
    their rows, mapped to the start table they come from."""
    # identity = (start model, start field) or ('added', n)
    where = {}          # ident -> (model, field) now
    expr = {}
    cur = copy.deepcopy(spec)
    table_origin = {}   # model now -> start table
    for mname, md in spec.items():
        table_origin[mname] = D.table_of(spec, mname)
        where[(mname, 'id')] = (mname, 'id')
        expr[(mname, 'id')] = ('start', D.table_of(spec, mname), 'id')
        for fname, fd in md['fields'].items():
            col = column_of(fname, fd)
            if col is None:
                continue
            where[(mname, fname)] = (mname, fname)
            expr[(mname, fname)] = ('start', D.table_of(spec, mname), col)
    n_added = 0
    for d in muts:
        k = d['op']
        if k == 'add':
            fd = d['field']
            if fd['type'] != 'ManyToMany':
                ident = ('added', n_added)
                n_added += 1
                where[ident] = (d['model'], d['name'])
                init = d.get('initial')
                if callable(init):
                    raise S.Unsupported('callable initial')
                expr[ident] = ('const', init)
        elif k == 'change':
            for ident, (m, f) in where.items():
                if (m, f) == (d['model'], d['name']):
                    old_null = cur[m]['fields'][f].get('null', False)
                    if d['attrs'].get('null') is False and old_null:
                        if callable(d.get('initial')):
                            raise S.Unsupported('callable initial')
                        expr[ident] = ('coalesce', expr[ident], d.get('initial'))
        elif k == 'delete':
            for ident, (m, f) in list(where.items()):
                if (m, f) == (d['model'], d['name']):
                    del where[ident]
        elif k == 'rename':
            for ident, (m, f) in where.items():
                if (m, f) == (d['model'], d['name']):
                    where[ident] = (m, d['new'])
        elif k == 'rename_model':
            for ident, (m, f) in where.items():
                if m == d['model']:
                    where[ident] = (d['new'], f)
            table_origin[d['new']] = table_origin.pop(d['model'])
        elif k == 'delete_model':
            for ident, (m, f) in list(where.items()):
                if m == d['model']:
                    del where[ident]
            table_origin.pop(d['model'], None)
        elif k == 'delete_app':
            where.clear()
            table_origin.clear()
        cur = D.apply_to_spec(cur, d)
    out = {}
    for ident, (m, f) in where.items():
        table = D.table_of(cur, m)
        col = 'id' if f == 'id' else column_of(f, cur[m]['fields'][f])
        out[(table, col)] = expr[ident]
    tables = dict((D.table_of(cur, m), t0) for m, t0 in table_origin.items())
    return out, tables


def sym_expected(e, start_rows, r, vals):
    if e[0] == 'start':
        return start_rows[e[1]][r][e[2]]
    if e[0] == 'const':
        return vals.cell(e[1])
    a = sym_expected(e[1], start_rows, r, vals)
    b = vals.cell(e[2])
    return (z3.And(a[0], b[0]), z3.If(a[0], b[1], a[1]))


def conc_expected(e, start_rows, r):
    if e[0] == 'start':
        return start_rows[e[1]][r][e[2]]
    if e[0] == 'const':
        return e[1]
    a = conc_expected(e[1], start_rows, r)
    return e[2] if a is None else a


def cell_neq(a, b):
    return z3.Or(a[0] != b[0], z3.And(z3.Not(a[0]), a[1] != b[1]))


def data_query(start_master, stmts, spec, muts, start_catalog=None):
    """C02. -> dict(result, detail, model, solver_s)"""
    vals = S.Values()
    st = S.DataState(vals, NROWS)
    start_rows = {}
    for (typ, name, tbl, sql) in start_master:
        if typ != 'table':
            continue
        ps = S.parse_statement(sql)
        cols = [c['name'] for c in ps['columns']]
        nn = [c['name'] for c in ps['columns'] if c['notnull'] or c['pk']]
        st.add_symbolic_table(name, cols, nn)
        start_rows[name] = [dict(r) for r in st.tables[name]['rows']]
    for (sql, params) in stmts:
        st.run(S.parse_statement(sql), params)
    exp, tables = expected_cells(spec, muts)
    disj = []
    labels = []
    for ftable, t0 in tables.items():
        if ftable not in st.tables or st.tables[ftable]['rows'] is None:
            return {'result': 'sat', 'detail': 'table %s (from %s) lost its rows' % (ftable, t0),
                    'model': None, 'solver_s': 0.0, 'structural': True}
    for (ftable, fcol), e in exp.items():
        t = st.tables.get(ftable)
        if t is None or t['rows'] is None or fcol not in t['cols']:
            return {'result': 'sat', 'detail': 'expected column %s.%s is missing after the evolution'
                    % (ftable, fcol), 'model': None, 'solver_s': 0.0, 'structural': True}
        for r in range(NROWS):
            got = t['rows'][r][fcol]
            want = sym_expected(e, start_rows, r, vals)
            disj.append(cell_neq(got, want))
            labels.append((ftable, fcol, r))
    disj += st.not_null_violations
    labels += [('NOT NULL violation', i, 0) for i in range(len(st.not_null_violations))]
    s = z3.Solver()
    s.set('timeout', 20000)
    # the start database satisfies its own NOT NULL declarations
    for tname, nn in list(st.notnull.items()):
        pass
    for (typ, name, tbl, sql) in start_master:
        if typ == 'table':
            ps = S.parse_statement(sql)
            for c in ps['columns']:
                if c['notnull'] or c['pk']:
                    for r in range(NROWS):
                        s.add(z3.Not(start_rows[name][r][c['name']][0]))
    if start_catalog is not None:
        # the start database is a valid database: primary keys, uniques, checks, foreign keys hold
        common = dict((t, start_catalog[t]) for t in start_catalog if t in start_rows)
        s.add(S.acceptance(common, start_rows, vals))
    if not disj:
        return {'result': 'unsat', 'detail': 'no obligations', 'model': None, 'solver_s': 0.0,
                'cells': 0}
    s.add(z3.Or(disj))
    t0 = time.time()
    r = str(s.check())
    dt = time.time() - t0
    model = None
    detail = ''
    if r == 'sat':
        m = s.model()
        model = {}
        for t, rows in start_rows.items():
            model[t] = []
            for row in rows:
                out = {}
                for c, (n, v) in row.items():
                    isnull = z3.is_true(m.eval(n, model_completion=True))
                    out[c] = None if isnull else m.eval(v, model_completion=True).as_long()
                model[t].append(out)
        bad = [l for l, d in zip(labels, disj) if z3.is_true(m.eval(d, model_completion=True))]
        detail = 'cells that differ: %s' % bad[:4]
    return {'result': r, 'detail': detail, 'model': model, 'solver_s': dt, 'cells': len(disj),
            'vals': vals}


# ------------------------------------------------------------------------------ translator validation

def validate_translation(start_master, start_catalog, stmts, sql, spec):
    """Guard for the SQL -> SMT translation: push one fixed concrete database (NULLs in every
    nullable column of row 0, distinct non-NULL values in row 1) through (a) real SQLite running the
    real statements and (b) the SMT interpretation with the cells fixed to the same values; every
    final cell must agree. -> list of disagreements (empty = translation validated on this program)."""
    from vlib import dbprog as D
    from django.db import connections
    vals = S.Values()
    st = S.DataState(vals, NROWS)
    concrete = {}
    fix = []
    counter = [10]
    for (typ, name, tbl, tsql) in start_master:
        if typ != 'table':
            continue
        ps = S.parse_statement(tsql)
        cols = [c['name'] for c in ps['columns']]
        nn = set(c['name'] for c in ps['columns'] if c['notnull'] or c['pk'])
        st.add_symbolic_table(name, cols, nn)
        fks = dict((f[0], f) for f in start_catalog[name]['fks'])
        types = dict((c_, i_['type']) for c_, i_ in start_catalog[name]['columns'].items())
        rows = []
        for r in range(NROWS):
            row = {}
            for c in cols:
                if c == 'id':
                    v = r + 1
                elif c in fks:
                    v = (r + 1) if (c in nn or r == 1) else None
                elif r == 0 and c not in nn:
                    v = None
                elif types.get(c) in ('datetime', 'date', 'time') and c not in nn:
                    v = None       # Django's converter for these declared types rejects integers
                elif types.get(c) == 'bool':
                    v = r          # Django registers a converter for the declared type bool
                else:
                    counter[0] += 1
                    v = counter[0]
                row[c] = v
                n_, v_ = st.tables[name]['rows'][r][c]
                fix.append(n_ == (v is None))
                if v is not None:
                    fix.append(v_ == v)
            rows.append(row)
        concrete[name] = rows
    for (q, params) in stmts:
        st.run(S.parse_statement(q), params)
    solver = z3.Solver()
    solver.add(fix)
    if str(solver.check()) != 'sat':
        return ['fixed start database is not a model of the encoding']
    m = solver.model()
    # real run
    conn = connections['default']
    D.reset_db('default')
    D.create_tables(D.build_models(spec), 'default')
    cat = catalog('default')
    with conn.cursor() as c:
        c.execute('PRAGMA foreign_keys = OFF')
        for t, rows in concrete.items():
            for row in rows:
                conc = dict((col, _to_db(v, cat[t]['columns'][col]['type'])) for col, v in row.items())
                cols = list(conc)
                c.execute('INSERT INTO "%s" (%s) VALUES (%s)' % (
                    t, ', '.join('"%s"' % x for x in cols), ', '.join(['%s'] * len(cols))),
                    [conc[x] for x in cols])
    try:
        D.execute(sql)
    except Exception as e:
        return ['real execution failed on the fixed rows: %s' % str(e)[:150]]
    out = []
    with conn.cursor() as c:
        for t, info in st.tables.items():
            if info['rows'] is None:
                continue
            try:
                c.execute('SELECT %s FROM "%s" ORDER BY "id"' % (', '.join('"%s"' % x for x in info['cols']), t))
                got = c.fetchall()
            except Exception as e:
                out.append('%s unreadable in the real database: %s' % (t, str(e)[:100]))
                continue
            if len(got) != len(info['rows']):
                out.append('%s: %d real rows vs %d modelled' % (t, len(got), len(info['rows'])))
                continue
            # modelled rows are in start order (id 1, 2)
            for r, real in enumerate(got):
                for ci, col in enumerate(info['cols']):
                    n_, v_ = info['rows'][r][col]
                    isnull = z3.is_true(m.eval(n_, model_completion=True))
                    want = None if isnull else m.eval(v_, model_completion=True).as_long()
                    have = _from_db(real[ci], vals)
                    if want != have:
                        out.append('%s.%s row %d: real %r vs modelled %r' % (t, col, r, real[ci], want))
    return out[:6]


def _to_db(v, typ):
    if v is None:
        return None
    if 'char' in typ or 'text' in typ:
        return 'v%d' % v
    return v


def _from_db(v, vals):
    if v is None:
        return None
    if isinstance(v, bool):
        return int(v)
    if isinstance(v, str):
        if v in vals.strs:
            return vals.strs[v]
        if v.startswith('v') and v[1:].lstrip('-').isdigit():
            return int(v[1:])
        try:
            return int(v)
        except ValueError:
            return ('str', v)
    if isinstance(v, float) and v == int(v):
        return int(v)
    try:
        import decimal
        if isinstance(v, decimal.Decimal) and v == int(v):
            return int(v)
    except Exception:
        pass
    return v
