"""CrossHair adjustments (trusted base).

(a) "%"-formatting with no symbolic operand runs untraced instead of having its
    operands deep-copied (which breaks Django ddl_references objects).
(b) time.* stay concrete.
(c) z3 solver accounting: number of check() calls and time spent, dumped at exit
    together with the harness path counters (vlib.hx).
"""
import atexit
import json
import os
import time as _time

import z3
import crosshair.core as _core
from crosshair import NoTracing
from crosshair.core import deep_realize
from crosshair.util import CrossHairValue


def _has_symbolic(x, depth=0):
    if isinstance(x, CrossHairValue):
        return True
    if depth < 2:
        if isinstance(x, (tuple, list)):
            return any(_has_symbolic(i, depth + 1) for i in x)
        if isinstance(x, dict):
            return any(_has_symbolic(v, depth + 1) for v in x.values())
    return False


def _safe_percent(self, other):
    if not isinstance(self, str):
        raise TypeError
    with NoTracing():
        sym = _has_symbolic(self) or _has_symbolic(other)
    if not sym:
        with NoTracing():
            return self.__mod__(other)
    return self.__mod__(deep_realize(other))


_core._PATCH_REGISTRATIONS[str.__mod__] = _safe_percent


def _mk(fn):
    def _f(*a, **k):
        with NoTracing():
            return fn(*a, **k)
    return _f


for _fn in (_time.monotonic, _time.time, _time.perf_counter,
            _time.monotonic_ns, _time.time_ns):
    if _fn in _core._PATCH_REGISTRATIONS:
        _core._PATCH_REGISTRATIONS[_fn] = _mk(_fn)

SOLVER = {'queries': 0, 'solver_s': 0.0}
_orig_check = z3.Solver.check


def _counting_check(self, *a):
    t0 = _time.perf_counter()
    try:
        return _orig_check(self, *a)
    finally:
        SOLVER['queries'] += 1
        SOLVER['solver_s'] += _time.perf_counter() - t0


z3.Solver.check = _counting_check


def _dump():
    path = os.environ.get('VERIF_STATS')
    if not path:
        return
    try:
        from vlib import hx
        stats = dict(hx.STATS)
    except Exception:
        stats = {}
    stats.update(SOLVER)
    try:
        with open(path, 'w') as f:
            json.dump(stats, f)
    except Exception:
        pass


atexit.register(_dump)

# (d) CrossHair's "premature realisation" heuristic (a ParallelNode at the creation of every int/
# bool/str argument that, with growing probability, replaces the symbolic value by one concrete
# value) is switched off: only the fully symbolic branch is explored. Either branch of a
# ParallelNode suffices for a verdict, so this loses nothing; with 15-25 range-constrained
# arguments the heuristic otherwise wastes >90% of the iterations on precondition failures.
from crosshair.statespace import StateSpace as _StateSpace

_orig_fork_parallel = _StateSpace.fork_parallel


def _fork_parallel(self, false_probability, desc=""):
    if desc.startswith('premature realize'):
        return False
    return _orig_fork_parallel(self, false_probability, desc)


_StateSpace.fork_parallel = _fork_parallel

# (e) the code base calls the unbound `dict.__eq__(a, b)`; CrossHair models dicts built in traced
# code as ShellMutableMap, for which the C slot raises TypeError. Route those calls to `==`.
_orig_dict_eq = dict.__eq__


def _dict_eq(a, b):
    with NoTracing():
        plain = type(a) in (dict,) or isinstance(a, dict)
        plain = plain and isinstance(b, dict)
    if plain:
        return _orig_dict_eq(a, b)
    return a == b


_core._PATCH_REGISTRATIONS[dict.__eq__] = _dict_eq

# (f) `dict(...)` called in traced code builds a ShellMutableMap even when every key is a concrete
# string; its length bookkeeping goes wrong after copy()+pop() (len 0 with one live key, observed
# in ChangeMeta.simulate), which yields non-reproducing counterexamples. Build a real dict whenever
# all keys are concrete; values may stay symbolic (they are only stored).
import collections as _collections
import crosshair.libimpl.builtinslib as _bl

_ch_dict = _core._PATCH_REGISTRATIONS.get(dict)
_MISSING = object()


def _concrete_keys(obj):
    if type(obj) in (dict, _collections.OrderedDict):
        return all(not isinstance(k, CrossHairValue) for k in obj.keys())
    if type(obj) in (list, tuple):
        for pair in obj:
            if type(pair) not in (list, tuple) or len(pair) != 2 or isinstance(pair[0], CrossHairValue):
                return False
            try:
                hash(pair[0])
            except Exception:
                return False
        return True
    return False


def _dict_patch(arg=_MISSING, **kwargs):
    with NoTracing():
        ok = arg is _MISSING or _concrete_keys(arg)
        if ok:
            return dict(**kwargs) if arg is _MISSING else dict(arg, **kwargs)
    if arg is _MISSING:
        return _ch_dict(**kwargs)
    return _ch_dict(arg, **kwargs)


if _ch_dict is not None:
    _core._PATCH_REGISTRATIONS[dict] = _dict_patch

# (g) copy.copy / copy.deepcopy / dict.copy / set() / frozenset() / list.copy on *fully concrete*
# arguments run natively. CrossHair otherwise replaces their results by symbolic containers
# (ShellMutableMap/ShellMutableSet), which costs hundreds of solver queries per path, makes set
# membership equality-based (BaseMutation hashes by identity) and has shown wrong length
# bookkeeping. "Fully concrete" is established by a bounded walk; anything symbolic, too deep or
# too large falls back to CrossHair's own implementation.
import copy as _copy


def _all_concrete(obj, budget, depth=0):
    """budget: one-element list with the number of nodes still allowed."""
    budget[0] -= 1
    if budget[0] < 0 or depth > 8:
        return False
    if isinstance(obj, CrossHairValue):
        return False
    if obj is None or isinstance(obj, (str, int, float, bool, bytes, type)):
        return True
    if isinstance(obj, dict):
        for k, v in obj.items():
            if not _all_concrete(k, budget, depth + 1) or not _all_concrete(v, budget, depth + 1):
                return False
        return True
    if isinstance(obj, (list, tuple, set, frozenset)):
        for i in obj:
            if not _all_concrete(i, budget, depth + 1):
                return False
        return True
    d = getattr(obj, '__dict__', None)
    if isinstance(d, dict):
        for v in d.values():
            if not _all_concrete(v, budget, depth + 1):
                return False
        return True
    return callable(obj) or True


def _native_if_concrete(orig_patch, native):
    """Same structure as CrossHair's own copylib patches (native call from inside the registered
    patch, which the tracer does not intercept again), plus the untraced fast path."""
    def patched(*a, **kw):
        with NoTracing():
            if a and isinstance(a[0], CrossHairValue):
                return native(*a, **kw)
            if not kw and all(_all_concrete(x, [3000]) for x in a):
                try:
                    return native(*a)
                except Exception:
                    pass
        return native(*a, **kw)
    return patched


def _iter_concrete(native):
    def wrap(*a):
        # materialise generators once so that the fallback still sees the items
        return native(*a)
    return wrap


for _target, _native in ((_copy.copy, _copy.copy), (_copy.deepcopy, _copy.deepcopy)):
    _p = _core._PATCH_REGISTRATIONS.get(_target)
    if _p is not None:
        _core._PATCH_REGISTRATIONS[_target] = _native_if_concrete(_p, _native)


def _native_method(orig_patch, native, typ):
    """dict.copy / list.copy / set.copy of a real container are shallow: run them natively whatever
    the elements are (symbolic elements are just referenced); proxies keep CrossHair's method."""
    def patched(self, *a, **kw):
        with NoTracing():
            if type(self) is typ or isinstance(self, typ):
                return native(self, *a, **kw)
        return orig_patch(self, *a, **kw)
    return patched


for _target, _typ in ((dict.copy, dict), (list.copy, list), (set.copy, set)):
    _p = _core._PATCH_REGISTRATIONS.get(_target)
    if _p is not None:
        _core._PATCH_REGISTRATIONS[_target] = _native_method(_p, _target, _typ)

_ch_set = _core._PATCH_REGISTRATIONS.get(set)
_ch_frozenset = _core._PATCH_REGISTRATIONS.get(frozenset)


def _builtin_hashable(x, depth=0):
    if x is None or type(x) in (str, int, bool, float, bytes):
        return True
    if type(x) in (tuple, frozenset) and depth < 4:
        return all(_builtin_hashable(i, depth + 1) for i in x)
    return False


def _mk_setlike(orig_patch, native):
    def patched(*a):
        if len(a) == 1:
            with NoTracing():
                arg = a[0]
                if type(arg) in (list, tuple, set, frozenset, dict) and _all_concrete(arg, [3000]):
                    try:
                        return native(arg)
                    except Exception:
                        pass
        elif not a:
            return native()
        return orig_patch(*a)
    return patched


# hash() of a concrete builtin value is the real (PYTHONHASHSEED=0) hash: classes such as
# utils.graph.Node implement __hash__ as hash(self.key), and a symbolic result cannot be handed
# back to the C implementation of set/dict ("proxy intolerance").
_ch_hash = _core._PATCH_REGISTRATIONS.get(hash)


def _hash_patch(obj):
    with NoTracing():
        if _builtin_hashable(obj):
            return hash(obj)
    return _ch_hash(obj)


if _ch_hash is not None:
    _core._PATCH_REGISTRATIONS[hash] = _hash_patch


if _ch_set is not None:
    _core._PATCH_REGISTRATIONS[set] = _mk_setlike(_ch_set, set)
if _ch_frozenset is not None:
    _core._PATCH_REGISTRATIONS[frozenset] = _mk_setlike(_ch_frozenset, frozenset)
