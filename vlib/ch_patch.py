"""CrossHair adjustments (trusted base).

(a) "%"-formatting with no symbolic operand runs untraced instead of having its
    operands deep-copied (which breaks Django ddl_references objects).
(b) time.* stay concrete.
(c) z3 solver accounting: number of check() calls and time spent, dumped at exit
    together with the harness path counters (vlib.hx).
"""
import atexit
import json
import os
import time as _time

import z3
import crosshair.core as _core
from crosshair import NoTracing
from crosshair.core import deep_realize
from crosshair.util import CrossHairValue


def _has_symbolic(x, depth=0):
    if isinstance(x, CrossHairValue):
        return True
    if depth < 2:
        if isinstance(x, (tuple, list)):
            return any(_has_symbolic(i, depth + 1) for i in x)
        if isinstance(x, dict):
            return any(_has_symbolic(v, depth + 1) for v in x.values())
    return False


def _safe_percent(self, other):
    if not isinstance(self, str):
        raise TypeError
    with NoTracing():
        sym = _has_symbolic(self) or _has_symbolic(other)
    if not sym:
        with NoTracing():
            return self.__mod__(other)
    return self.__mod__(deep_realize(other))


_core._PATCH_REGISTRATIONS[str.__mod__] = _safe_percent


def _mk(fn):
    def _f(*a, **k):
        with NoTracing():
            return fn(*a, **k)
    return _f


for _fn in (_time.monotonic, _time.time, _time.perf_counter,
            _time.monotonic_ns, _time.time_ns):
    if _fn in _core._PATCH_REGISTRATIONS:
        _core._PATCH_REGISTRATIONS[_fn] = _mk(_fn)

SOLVER = {'queries': 0, 'solver_s': 0.0}
_orig_check = z3.Solver.check


def _counting_check(self, *a):
    t0 = _time.perf_counter()
    try:
        return _orig_check(self, *a)
    finally:
        SOLVER['queries'] += 1
        SOLVER['solver_s'] += _time.perf_counter() - t0


z3.Solver.check = _counting_check


def _dump():
    path = os.environ.get('VERIF_STATS')
    if not path:
        return
    try:
        from vlib import hx
        stats = dict(hx.STATS)
    except Exception:
        stats = {}
    stats.update(SOLVER)
    try:
        with open(path, 'w') as f:
            json.dump(stats, f)
    except Exception:
        pass


atexit.register(_dump)
