"""Helpers used inside harness functions."""
import json
import os

try:
    from crosshair import realize
except Exception:
    def realize(x):
        return x

try:
    from crosshair import NoTracing
except Exception:  # plain replay interpreter without crosshair on the path
    class NoTracing(object):
        def __enter__(self):
            return self

        def __exit__(self, *a):
            return False

PART = json.loads(os.environ.get('VERIF_PART', 'null'))
TWIN = os.environ.get('VERIF_TWIN') == '1'
EXCL = [tuple(v) for v in json.loads(os.environ.get('VERIF_EXCLUDE', '[]'))]
ACTIVE_KF = set(json.loads(os.environ.get('VERIF_KF', '[]')))
STATS = {'paths': 0, 'nontrivial': 0}
THOROUGH = os.environ.get('VERIF_TIER') == 'thorough'


def bound(quick, thorough):
    """A bound that is larger in the thorough tier."""
    return thorough if THOROUGH else quick


def part(i, default=None):
    """i-th component of this process's partition (None = unconstrained)."""
    if PART is None:
        return default
    return PART[i]


def in_part(*vals):
    """True iff the leading choice variables equal this process's partition."""
    if PART is None:
        return True
    for v, p in zip(vals, PART):
        if p is not None and v != p:
            return False
    return True


def excluded(*args):
    for v in EXCL:
        if len(v) == len(args) and all(a == b for a, b in zip(args, v)):
            return True
    return False


def kf(name):
    return name in ACTIVE_KF


def verdict(ok, nontrivial=True):
    """Count the path and return the harness verdict (or the twin's)."""
    with NoTracing():
        STATS['paths'] += 1
        if nontrivial:
            STATS['nontrivial'] += 1
    if TWIN:
        return not nontrivial
    return ok


def pick(seq, i):
    """seq[i] for a symbolic index i, returning the *concrete* element (forks on i).

    Plain indexing of a list of classes with a symbolic int makes CrossHair build a symbolic
    type, for which `is` comparisons and dict lookups in the code under test do not behave like
    the real class."""
    for k in range(len(seq)):
        if i == k:
            return seq[k]
    raise IndexError(i)
