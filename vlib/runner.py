"""Partitioned CrossHair runner: verdict parsing, concrete replay, known findings, evidence.

A *check* (one per property) is a list of Obligation objects. Each obligation names a
harness function carrying a PEP316 contract; the runner starts one `crosshair check`
process per partition (16 in parallel), reads the per-condition verdict, replays every
counterexample in a plain interpreter, and writes /verif/evidence/<id>.json.

Exit status: 0 = nothing violated (possibly INCONCLUSIVE partitions, listed);
1 = a replayed violation (VIOLATION line); 3 = the machinery itself is broken
(HARNESS-ERROR line).
"""
from __future__ import annotations

import ast
import concurrent.futures as cf
import hashlib
import json
import os
import re
import subprocess
import sys
import tempfile
import time

VERIF = '/verif'
PY = os.path.join(VERIF, '.venv', 'bin', 'python')
PLUGIN = os.path.join(VERIF, 'vlib', 'vplugin.py')
KF_FILE = os.path.join(VERIF, 'known_findings.json')
NCPU = int(os.environ.get('VERIF_JOBS', '16'))


def ensure_setup():
    if not os.path.exists(PY):
        subprocess.run([os.path.join(VERIF, 'setup.sh')], check=True)


class Obligation(object):
    def __init__(self, name, harness, func, partitions=None, timeout=60,
                 path_timeout=30, twin_partition='first', what='', bounds='',
                 bug_hunting_only=False, env=None, functions=None, twin=True):
        self.name = name
        self.harness = harness          # path relative to /verif
        self.func = func
        self.partitions = partitions if partitions is not None else [None]
        self.timeout = timeout          # CPU seconds per partition (per_condition_timeout)
        self.path_timeout = path_timeout
        self.twin_partition = twin_partition
        self.what = what
        self.bounds = bounds
        self.bug_hunting_only = bug_hunting_only
        self.env = env or {}
        self.functions = functions or []
        self.twin = twin


def func_line(path, func):
    tree = ast.parse(open(path).read())
    for node in ast.walk(tree):
        if isinstance(node, ast.FunctionDef) and node.name == func:
            return node.body[0].lineno
    raise KeyError(func)


_MSG = re.compile(r'^(?P<file>[^:\n]+):(?P<line>\d+): (?P<kind>error|info|warning): (?P<msg>.*)$')


def _base_env(ob, part, extra=None):
    env = dict(os.environ)
    env['PYTHONPATH'] = VERIF
    env['PYTHONHASHSEED'] = env.get('VERIF_HASHSEED', '0')
    env['VERIF_PART'] = json.dumps(part)
    env.pop('VERIF_TWIN', None)
    env.update(ob.env)
    if extra:
        env.update(extra)
    return env


def run_partition(ob, part, twin=False, exclude=None, kf_active=None, timeout=None):
    """Run one crosshair process. Returns dict(status, msgs, stats, wall, out)."""
    path = os.path.join(VERIF, ob.harness)
    line = func_line(path, ob.func)
    t = timeout or ob.timeout
    fd, stats_path = tempfile.mkstemp(prefix='vstats_', suffix='.json')
    os.close(fd)
    extra = {'VERIF_STATS': stats_path,
             'VERIF_EXCLUDE': json.dumps(exclude or []),
             'VERIF_KF': json.dumps(sorted(kf_active or []))}
    if twin:
        extra['VERIF_TWIN'] = '1'
    cmd = [PY, '-m', 'crosshair', 'check', '%s:%d' % (path, line), '--report_all',
           '--per_condition_timeout', str(t), '--per_path_timeout', str(ob.path_timeout),
           '--unblock', 'EVERYTHING', '--extra_plugin', PLUGIN]
    t0 = time.time()
    try:
        p = subprocess.run(cmd, env=_base_env(ob, part, extra), cwd=VERIF,
                           capture_output=True, text=True, timeout=t * 3 + 120)
        out, err, rc = p.stdout, p.stderr, p.returncode
    except subprocess.TimeoutExpired as e:
        out = (e.stdout or b'').decode() if isinstance(e.stdout, bytes) else (e.stdout or '')
        err, rc = 'wall timeout', -9
    wall = time.time() - t0
    stats = {}
    try:
        with open(stats_path) as f:
            stats = json.load(f)
    except Exception:
        pass
    try:
        os.unlink(stats_path)
    except OSError:
        pass
    msgs = []
    for ln in out.splitlines():
        m = _MSG.match(ln)
        if m:
            msgs.append((m.group('kind'), m.group('msg')))
    status = 'inconclusive'
    detail = ''
    cex = None
    for kind, msg in msgs:
        if kind == 'error':
            status = 'counterexample'
            detail = msg
            cex = parse_call(msg, ob.func)
            break
    else:
        for kind, msg in msgs:
            if 'Confirmed over all paths' in msg:
                status = 'confirmed'
            elif 'Unable to meet precondition' in msg:
                status, detail = 'inconclusive', 'unable to meet precondition'
            elif 'Not confirmed' in msg:
                status, detail = 'inconclusive', 'not confirmed (timeout or unexplored paths)'
    if rc == -9 and status != 'counterexample':
        status, detail = 'inconclusive', 'wall-clock limit reached (machine busy)'
    elif rc not in (0, 1) and status != 'counterexample':
        status = 'error'
        detail = (err or out)[-2000:]
    return {'status': status, 'detail': detail, 'cex': cex, 'stats': stats, 'wall': wall,
            'part': part, 'out': out[-4000:], 'err': err[-2000:] if status == 'error' else ''}


def parse_call(msg, func):
    """Extract the `func(args)` call text from a CrossHair message."""
    i = msg.find('when calling ' + func + '(')
    if i < 0:
        return None
    s = msg[i + len('when calling '):]
    depth = 0
    instr = None
    j = 0
    while j < len(s):
        c = s[j]
        if instr:
            if c == '\\':
                j += 1
            elif c == instr:
                instr = None
        elif c in '\'"':
            instr = c
        elif c in '([{':
            depth += 1
        elif c in ')]}':
            depth -= 1
            if depth == 0:
                return s[:j + 1]
        j += 1
    return None


REPLAY_TMPL = '''#!/verif/.venv/bin/python
# Replay of a solver counterexample against the real code (no CrossHair involved).
# property={prop} obligation={ob}
import os, sys
sys.path.insert(0, '/verif')
os.environ['VERIF_PART'] = 'null'
{envlines}
import importlib.util
spec = importlib.util.spec_from_file_location('harness_replay', {path!r})
mod = importlib.util.module_from_spec(spec)
spec.loader.exec_module(mod)
try:
    r = eval({call!r}, vars(mod))
except Exception as e:
    import traceback; traceback.print_exc()
    print('REPLAY: exception %s: %s' % (type(e).__name__, e))
    sys.exit(1)
print('REPLAY: returned', r)
sys.exit(0 if r else 1)
'''


def write_replay(prop, ob, call, twin=False):
    h = hashlib.sha1((ob.name + call).encode()).hexdigest()[:10]
    d = os.path.join(VERIF, 'replays')
    os.makedirs(d, exist_ok=True)
    path = os.path.join(d, '%s_%s_%s.py' % (prop, ob.name, h))
    envlines = ''.join('os.environ[%r] = %r\n' % (k, v) for k, v in ob.env.items())
    if twin:
        envlines += "os.environ['VERIF_TWIN'] = '1'\n"
    with open(path, 'w') as f:
        f.write(REPLAY_TMPL.format(prop=prop, ob=ob.name, envlines=envlines,
                                   path=os.path.join(VERIF, ob.harness), call=call))
    os.chmod(path, 0o755)
    return path


def replay(path, kf_active=None):
    """Run a replay script in a plain interpreter: True = the failure reproduces."""
    env = dict(os.environ)
    env['PYTHONPATH'] = VERIF
    env['PYTHONHASHSEED'] = env.get('VERIF_HASHSEED', '0')
    env['VERIF_KF'] = '[]'
    env.pop('VERIF_TWIN', None)
    try:
        p = subprocess.run([PY, path], env=env, capture_output=True, text=True, timeout=600)
    except subprocess.TimeoutExpired:
        return None, 'replay timeout'
    tail = (p.stdout + p.stderr)[-1500:]
    if p.returncode == 1:
        return True, tail
    if p.returncode == 0:
        return False, tail
    return None, tail


def call_args(call):
    """Argument vector of a `f(a, b)` call text as python values (literal_eval), or None."""
    try:
        node = ast.parse(call, mode='eval').body
        vals = [ast.literal_eval(a) for a in node.args]
        if node.keywords:
            return None
        return vals
    except Exception:
        return None


def load_known_findings(prop):
    try:
        data = json.load(open(KF_FILE))
    except Exception:
        return [], []
    kfs = [e for e in data.get('findings', []) if e.get('property') == prop]
    fixed = [e for e in data.get('fixed', []) if e.get('property') == prop]
    return kfs, fixed


def run_check(prop, obligations, tier, level='model_checking', assumptions=None,
              trusted_base=None, extra_coverage=None, pre_violations=None):
    """Run all obligations, print verdict lines, write evidence, return exit status."""
    ensure_setup()
    only = os.environ.get('VERIF_ONLY')
    if only:
        obligations = [o for o in obligations if o.name in only.split(',')]
    t_start = time.time()
    seed = int(os.environ.get('VERIF_SEED', '0'))
    kfs, fixed = load_known_findings(prop)
    lines = []
    violations = list(pre_violations or [])
    harness_errors = []
    inconclusive = []
    artifacts = []
    samples = []
    kf_reported = []

    # 1. Known findings: replay each witness; active ones print KNOWN-FINDING and
    #    exclude their region from the search.
    active_by_ob = {}
    for e in kfs:
        ob = next((o for o in obligations if o.name == e.get('obligation')), None)
        if ob is None:
            continue
        rp = write_replay(prop, ob, e['witness'])
        ok, tail = replay(rp)
        if ok:
            print('KNOWN-FINDING: property=%s %s [witness %s]' % (prop, e['what'], e['witness']))
            kf_reported.append(e['id'])
            active_by_ob.setdefault(ob.name, set()).add(e['region'])
        else:
            print('NOTE: known finding %s no longer reproduces; nothing suppressed for it' % e['id'])

    jobs = []
    for ob in obligations:
        for part in ob.partitions:
            jobs.append((ob, part))
    results = {}
    twin_results = {}

    def work(job):
        ob, part = job
        kf_active = active_by_ob.get(ob.name, set())
        excl = []
        res = None
        tries = []
        for attempt in range(6):
            res = run_partition(ob, part, exclude=excl, kf_active=kf_active)
            tries.append(res)
            if res['status'] != 'counterexample':
                break
            if not res['cex']:
                res['replayed'] = None
                break
            rp = write_replay(prop, ob, res['cex'])
            rep, tail = replay(rp)
            res['replay_path'] = rp
            res['replayed'] = rep
            res['replay_tail'] = tail
            if rep:
                break
            # does not reproduce: harness artefact; exclude the vector and go on
            vec = call_args(res['cex'])
            artifacts.append({'obligation': ob.name, 'part': part, 'call': res['cex'],
                              'detail': res['detail'][:300]})
            try:
                os.unlink(rp)
            except OSError:
                pass
            if vec is None:
                break
            excl.append(vec)
        res['tries'] = len(tries)
        res['stats_sum'] = {
            k: sum(t['stats'].get(k, 0) for t in tries)
            for k in ('paths', 'nontrivial', 'queries', 'solver_s')}
        return job, res

    def twin_work(ob):
        part = ob.partitions[0] if ob.twin_partition == 'first' else ob.twin_partition
        kf_active = active_by_ob.get(ob.name, set())
        res = run_partition(ob, part, twin=True, kf_active=kf_active,
                            timeout=min(ob.timeout, 150))
        if res['status'] == 'counterexample' and res['cex']:
            res['sample'] = res['cex']
        return ob, res

    with cf.ThreadPoolExecutor(max_workers=NCPU) as ex:
        futs = [ex.submit(work, j) for j in jobs]
        tfuts = [ex.submit(twin_work, ob) for ob in obligations if ob.twin]
        for f in futs:
            job, res = f.result()
            results[(job[0].name, json.dumps(job[1]))] = (job[0], res)
        for f in tfuts:
            ob, res = f.result()
            twin_results[ob.name] = res

    per_ob = []
    tot = {'paths': 0, 'nontrivial': 0, 'queries': 0, 'solver_s': 0.0}
    all_exhaustive = True
    for ob in obligations:
        rs = [r for (o, r) in results.values() if o is ob]
        confirmed = [r for r in rs if r['status'] == 'confirmed']
        cexs = [r for r in rs if r['status'] == 'counterexample']
        for r in rs:
            for k in tot:
                tot[k] += r['stats_sum'].get(k, 0)
        ob_viol = []
        for r in cexs:
            if r.get('replayed'):
                ob_viol.append(r)
                violations.append({'obligation': ob.name, 'call': r['cex'],
                                   'detail': r['detail'][:500], 'replay': r['replay_path']})
            elif r.get('replayed') is None and not r.get('cex'):
                harness_errors.append('%s part=%s: unparsable counterexample: %s'
                                      % (ob.name, r['part'], r['detail'][:300]))
            else:
                inconclusive.append({'obligation': ob.name, 'part': r['part'],
                                     'why': 'non-reproducing counterexample(s) only'})
        for r in rs:
            if r['status'] == 'inconclusive' and ob.bug_hunting_only:
                pass
            elif r['status'] == 'inconclusive':
                inconclusive.append({'obligation': ob.name, 'part': r['part'], 'why': r['detail']})
            elif r['status'] == 'error':
                harness_errors.append('%s part=%s: %s' % (ob.name, r['part'], r['detail'][-600:]))
        tw = twin_results.get(ob.name)
        twin_ok = None
        if ob.twin:
            twin_ok = bool(tw and tw['status'] == 'counterexample')
            if tw and tw.get('sample'):
                samples.append({'obligation': ob.name, 'reachable_nontrivial_input': tw['sample']})
            if not twin_ok and tw and tw['status'] == 'inconclusive':
                # the twin ran out of budget before reaching a non-trivial path: not a proof of vacuity
                inconclusive.append({'obligation': ob.name, 'part': 'twin',
                                     'why': 'reachability twin inconclusive: %s' % tw['detail']})
                twin_ok = None
            elif not twin_ok:
                harness_errors.append('%s: reachability twin not violated (%s: %s) -> harness may be vacuous'
                                      % (ob.name, tw and tw['status'], (tw and (tw['detail'] or tw['err'] or tw['out']))[-600:]))
        exhaustive = (len(confirmed) == len(rs)) and not ob.bug_hunting_only
        if not ob.bug_hunting_only and len(confirmed) != len(rs):
            all_exhaustive = False
        per_ob.append({
            'obligation': ob.name, 'harness': ob.harness + '::' + ob.func, 'what': ob.what,
            'bounds': ob.bounds, 'functions_encoded': ob.functions,
            'partitions': len(rs), 'partitions_exhausted': len(confirmed),
            'counterexamples_replayed': len(ob_viol),
            'paths': sum(r['stats_sum'].get('paths', 0) for r in rs),
            'nontrivial_paths': sum(r['stats_sum'].get('nontrivial', 0) for r in rs),
            'queries': sum(r['stats_sum'].get('queries', 0) for r in rs),
            'solver_s': round(sum(r['stats_sum'].get('solver_s', 0) for r in rs), 2),
            'cpu_wall_s': round(sum(r['wall'] for r in rs), 1),
            'twin_violated': twin_ok, 'bug_hunting_only': ob.bug_hunting_only,
            'exhaustive': exhaustive,
        })

    for v in violations:
        print('VIOLATION property=%s replay=%s' % (prop, v['replay']))
        print('  obligation=%s call=%s' % (v.get('obligation'), v.get('call')))
        print('  detail=%s' % v.get('detail'))
    for i in inconclusive:
        print('INCONCLUSIVE property=%s obligation=%s part=%s: %s'
              % (prop, i['obligation'], i['part'], i['why']))
    for h in harness_errors:
        print('HARNESS-ERROR property=%s %s' % (prop, h))
    for o in per_ob:
        print('  %-28s partitions %d/%d exhausted, paths=%d nontrivial=%d queries=%d solver_s=%.1f'
              % (o['obligation'], o['partitions_exhausted'], o['partitions'], o['paths'],
                 o['nontrivial_paths'], o['queries'], o['solver_s']))

    coverage = {
        'evaluations': int(tot['paths']),
        'distinct_nontrivial': int(tot['nontrivial']),
        'rule': 'evaluations = execution paths of the harness explored symbolically by CrossHair '
                '(each path stands for all input values that follow it; z3 decides the assertion per path); '
                'distinct_nontrivial = paths on which the validity precondition held and the oracle was evaluated '
                '(paths are distinct by construction of the path tree). Counted inside the harness (vlib.hx.verdict).',
        'samples': samples or [{'note': 'no twin sample available'}],
        'exhaustive': bool(all_exhaustive and not inconclusive and not harness_errors),
        'obligation_details': per_ob,
        'queries': int(tot['queries']),
        'solver_s': round(tot['solver_s'], 2),
        'inconclusive': inconclusive,
        'harness_artifacts': artifacts,
        'harness_errors': harness_errors,
        'known_findings_reported': kf_reported,
        'violations': violations,
        'trusted_base': trusted_base or [],
    }
    if extra_coverage:
        coverage.update(extra_coverage)
    ev = {
        'property_id': prop, 'tier': tier, 'seed': seed, 'level': level,
        'coverage': coverage, 'assumptions': assumptions or [],
        'wall_s': round(time.time() - t_start, 1), 'violations': len(violations),
    }
    evdir = os.environ.get('VERIF_EVIDENCE_DIR', os.path.join(VERIF, 'evidence'))   # experiments only
    os.makedirs(evdir, exist_ok=True)
    with open(os.path.join(evdir, prop + '.json'), 'w') as f:
        json.dump(ev, f, indent=1, default=str)
    if violations:
        return 1
    if harness_errors:
        return 3
    print('OK property=%s tier=%s exhaustive=%s wall=%.0fs' % (prop, tier, coverage['exhaustive'], ev['wall_s']))
    return 0
