"""C05 - the hinted evolution resolves the diff; a signature has an empty diff with itself and its
clone; `==` agrees with `diff` in both directions.

Attribute values (null, unique, db_index, max_length, db_column, max_digits, ...) are symbolic and
stay symbolic wherever the code only copies and compares them; presence of an attribute, field
types, relation targets and list shapes are symbolic choices that fork.
"""
from vlib import boot  # noqa
from vlib import hx

from typing import Optional

from django.db import models

import django_evolution.diff as diffmod
from django_evolution.diff import Diff
from django_evolution.errors import SimulationFailure
from django_evolution.signature import (AppSignature, ConstraintSignature, FieldSignature,
                                        IndexSignature, ModelSignature, ProjectSignature)

TYPES = [models.CharField, models.IntegerField, models.BooleanField, models.DecimalField,
         models.ForeignKey, models.ManyToManyField]
RELATED = ['app.Target', 'app.Other']
COLS = ['x', 'y', '']      # db_column pool ('' is falsy but not the default None)


def _attrs(ftype_i, p_null, null, p_len, length, p_idx, db_index, p_uniq, unique, p_col, col):
    """Build a field_attrs dict: p_* says whether the attribute is stated at all."""
    attrs = {}
    if p_null:
        attrs['null'] = null
    if p_len:
        attrs['max_length'] = length
    if p_idx:
        attrs['db_index'] = db_index
    if p_uniq:
        attrs['unique'] = unique
    if p_col:
        attrs['db_column'] = col
    return attrs


def _field(name, ftype_i, attrs, rel_i):
    related = hx.pick(RELATED, rel_i) if ftype_i >= 4 else None
    return FieldSignature(name, hx.pick(TYPES, ftype_i), attrs, related_model=related)


def _default_of(ftype_i, attr):
    if attr == 'db_index' and ftype_i == 4:
        return True
    return {'null': False, 'max_length': None, 'db_index': False, 'unique': False,
            'db_column': None}[attr]


def _explicit_default_mismatch(ftype_i, a, b):
    """Region of the (fixed) finding: an attribute stated as its default on one side only."""
    for attr in ('null', 'max_length', 'db_index', 'unique', 'db_column'):
        ina, inb = attr in a, attr in b
        if ina != inb:
            v = a[attr] if ina else b[attr]
            if v == _default_of(ftype_i, attr):
                return True
    return False


def _fmask_ok(pa_null, pb_null, pa_len, pb_len, pa_idx, pb_idx, pa_col, pb_col):
    """Partition component 1: bit mask of the attributes allowed to be stated (1 null, 2 len, 4 idx, 16 col)."""
    mask = hx.part(1, 31)
    return ((mask & 1 or not (pa_null or pb_null)) and
            (mask & 2 or not (pa_len or pb_len)) and
            (mask & 4 or not (pa_idx or pb_idx)) and
            (mask & 16 or not (pa_col or pb_col)))


def h_field_eq_diff(t: int, rel_a: int, rel_b: int,
                    pa_null: bool, a_null: bool, pb_null: bool, b_null: bool,
                    pa_len: bool, a_len: int, pb_len: bool, b_len: int,
                    pa_idx: bool, a_idx: bool, pb_idx: bool, b_idx: bool,
                    pa_col: bool, a_col: int, pb_col: bool, b_col: int) -> bool:
    """FieldSignature: (a == b) iff diff is empty both ways; same type on both sides.

    pre: 0 <= t <= 5 and 0 <= rel_a <= 1 and 0 <= rel_b <= 1
    pre: hx.in_part(t)
    pre: (t >= 4 or (rel_a == 0 and rel_b == 0)) and 0 <= a_col <= 2 and 0 <= b_col <= 2
    pre: _fmask_ok(pa_null, pb_null, pa_len, pb_len, pa_idx, pb_idx, pa_col, pb_col)
    pre: not hx.excluded(t, rel_a, rel_b, pa_null, a_null, pb_null, b_null, pa_len, a_len, pb_len, b_len, pa_idx, a_idx, pb_idx, b_idx, pa_col, a_col, pb_col, b_col)
    post: _
    """
    aa = _attrs(t, pa_null, a_null, pa_len, a_len, pa_idx, a_idx, False, False, pa_col,
                hx.pick(COLS, a_col) if pa_col else None)
    bb = _attrs(t, pb_null, b_null, pb_len, b_len, pb_idx, b_idx, False, False, pb_col,
                hx.pick(COLS, b_col) if pb_col else None)
    if hx.kf('c05_explicit_default_eq') and _explicit_default_mismatch(t, aa, bb):
        return hx.verdict(True, False)
    a = _field('f', t, aa, rel_a)
    b = _field('f', t, bb, rel_b)
    eq = (a == b)
    empty = (a.diff(b) == [] and b.diff(a) == [])
    ok = bool(eq) == bool(empty)
    ok = ok and (a == a.clone()) and a.diff(a.clone()) == [] and a.clone().diff(a) == []
    return hx.verdict(ok, True)


def _model(name, fields, ut=(), it=(), indexes=(), constraints=(), comment=None, applied=True):
    ms = ModelSignature(model_name=name, table_name='app_' + name.lower(), pk_column='id',
                        unique_together=list(ut), index_together=list(it),
                        db_table_comment=comment, unique_together_applied=applied)
    ms.add_field_sig(FieldSignature('id', models.AutoField, {'primary_key': True}))
    for f in fields:
        ms.add_field_sig(f)
    for i in indexes:
        ms.add_index_sig(i)
    for c in constraints:
        ms.add_constraint_sig(c)
    return ms


def _project(model_sigs, with_targets=True):
    proj = ProjectSignature()
    app = AppSignature(app_id='app')
    proj.add_app_sig(app)
    for n in (('Target', 'Other') if with_targets else ()):
        app.add_model_sig(_model(n, []))
    for ms in model_sigs:
        app.add_model_sig(ms)
    return proj


TOGETHERS = [(), (('a', 'b'),), (('b', 'a'),), (('a', 'b'), ('b', 'c')), (('b', 'c'), ('a', 'b')),
             (('a',),)]


def _index(kind, name_i, length):
    """kind 0 none, 1 fields a, 2 fields a,b, 3 fields -a (ordering prefix), 4 with attrs."""
    name = [None, 'idx1', 'idx2'][name_i]
    if kind == 1:
        return IndexSignature(fields=['a'], name=name)
    if kind == 2:
        return IndexSignature(fields=['a', 'b'], name=name)
    if kind == 3:
        return IndexSignature(fields=['-a'], name=name)
    if kind == 5:
        from django.db.models import F, Q
        return IndexSignature(fields=None, name=name or 'ixe', expressions=[F('a') + F('b')],
                              attrs={'condition': Q(c__gt=1)})
    return IndexSignature(fields=['b'], name=name, attrs={'db_tablespace': 'ts', 'include': ('a',)})


def _constraint(kind, name_i):
    name = ['c1', 'c2'][name_i]
    if kind == 1:
        return ConstraintSignature(name=name, constraint_type=models.UniqueConstraint,
                                   attrs={'fields': ('a', 'b')})
    return ConstraintSignature(name=name, constraint_type=models.UniqueConstraint,
                               attrs={'fields': ('b',)})


def _meta_lists(ia, ib, swap):
    out = []
    if ia:
        out.append(ia)
    if ib:
        out.append(ib)
    if swap:
        out.reverse()
    return out


def _is_reorder(x, y):
    # inputs are concrete objects here (the symbolic choices have been branched on)
    with hx.NoTracing():
        return list(x) != list(y) and sorted(map(repr, x)) == sorted(map(repr, y))


def _model_eq_core(ut_a, ut_b, it_a, it_b, ia1, ia2, ib1, ib2, swap_a, swap_b,
                   ca1, ca2, cb1, cb2, cswap_a, cswap_b, com_a, com_b, applied_a=True,
                   applied_b=True):
    fields = lambda: [FieldSignature('a', models.IntegerField, {}),
                      FieldSignature('b', models.IntegerField, {}),
                      FieldSignature('c', models.IntegerField, {})]
    idx_a = _meta_lists(ia1 and _index(ia1, 1, 0), ia2 and _index(ia2, 2, 0), swap_a)
    idx_b = _meta_lists(ib1 and _index(ib1, 1, 0), ib2 and _index(ib2, 2, 0), swap_b)
    con_a = _meta_lists(ca1 and _constraint(ca1, 0), ca2 and _constraint(ca2, 1), cswap_a)
    con_b = _meta_lists(cb1 and _constraint(cb1, 0), cb2 and _constraint(cb2, 1), cswap_b)
    if hx.kf('c05_list_order_eq'):
        if (_is_reorder(idx_a, idx_b) or _is_reorder(con_a, con_b)
                or _is_reorder(list(TOGETHERS[it_a]), list(TOGETHERS[it_b]))):
            return True, False
    ma = _model('M', fields(), TOGETHERS[ut_a], TOGETHERS[it_a], idx_a, con_a, com_a, applied_a)
    mb = _model('M', fields(), TOGETHERS[ut_b], TOGETHERS[it_b], idx_b, con_b, com_b, applied_b)
    pa = _project([ma], False)
    pb = _project([mb], False)
    ok = True
    for (x, y) in ((ma, mb), (pa.get_app_sig('app'), pb.get_app_sig('app')), (pa, pb)):
        eq = bool(x == y)
        empty = (not y.diff(x)) and (not x.diff(y))
        ok = ok and (eq == empty)
    ok = ok and Diff(pa, pa).is_empty(False) and Diff(pa, pa.clone()).is_empty(False) \
        and Diff(pa.clone(), pa).is_empty(False) and pa == pa.clone()
    return ok, True


def h_eq_togethers(ut_a: int, ut_b: int, it_a: int, it_b: int, applied_a: bool,
                   applied_b: bool) -> bool:
    """Model/App/Project signature: == iff diff empty both ways; unique_together/index_together
    and the "unique_together was applied to the database" flag (False for signatures loaded
    from old versions) vary; a signature equals its clone with an empty diff.

    pre: 0 <= ut_a <= 5 and 0 <= ut_b <= 5 and 0 <= it_a <= 5 and 0 <= it_b <= 5
    pre: hx.in_part(ut_a, ut_b)
    pre: (it_a == it_b or (applied_a and applied_b))
    pre: not hx.excluded(ut_a, ut_b, it_a, it_b, applied_a, applied_b)
    post: _
    """
    ok, nt = _model_eq_core(ut_a, ut_b, it_a, it_b, 0, 0, 0, 0, False, False,
                            0, 0, 0, 0, False, False, None, None,
                            True if applied_a else False, True if applied_b else False)
    return hx.verdict(ok, nt)


def h_eq_indexes(ia1: int, ia2: int, ib1: int, ib2: int, swap_a: bool, swap_b: bool) -> bool:
    """Same, Meta.indexes vary (two slots per side, optional reordering).

    pre: 0 <= ia1 <= hx.bound(4, 5) and 0 <= ia2 <= hx.bound(4, 5) and 0 <= ib1 <= hx.bound(4, 5) and 0 <= ib2 <= hx.bound(4, 5)
    pre: hx.in_part(ia1, ia2)
    pre: not hx.excluded(ia1, ia2, ib1, ib2, swap_a, swap_b)
    post: _
    """
    ok, nt = _model_eq_core(0, 0, 0, 0, ia1, ia2, ib1, ib2, swap_a, swap_b,
                            0, 0, 0, 0, False, False, None, None)
    return hx.verdict(ok, nt)


COMMENTS = [None, '', 'x', 'y']


def h_eq_constraints(ca1: int, ca2: int, cb1: int, cb2: int, cswap_a: bool, cswap_b: bool,
                     com_a: int, com_b: int) -> bool:
    """Same, Meta.constraints (with reordering) and db_table_comment vary.

    pre: 0 <= ca1 <= 2 and 0 <= ca2 <= 2 and 0 <= cb1 <= 2 and 0 <= cb2 <= 2
    pre: 0 <= com_a <= 3 and 0 <= com_b <= 3
    pre: (com_a == 0 and com_b == 0) or (ca1 == 0 and ca2 == 0 and cb1 == 0 and cb2 == 0 and not cswap_a and not cswap_b)
    pre: hx.in_part(ca1, ca2)
    pre: not hx.excluded(ca1, ca2, cb1, cb2, cswap_a, cswap_b, com_a, com_b)
    post: _
    """
    ok, nt = _model_eq_core(0, 0, 0, 0, 0, 0, 0, 0, False, False,
                            ca1, ca2, cb1, cb2, cswap_a, cswap_b, COMMENTS[com_a], COMMENTS[com_b])
    return hx.verdict(ok, nt)


class _FakeField(object):
    def __init__(self, has_default, default):
        self._hd = has_default
        self._d = default
        self.empty_strings_allowed = False
        self.blank = False

    def has_default(self):
        return self._hd

    def get_default(self):
        return self._d


class _FakeModel(object):
    class _meta(object):
        pass

    def __init__(self, has_default, default):
        self._meta = self
        self.hd = has_default
        self.d = default

    def get_field(self, name):
        return _FakeField(self.hd, self.d)


def _closure(old_models, new_models, has_default, default):
    """Diff(old, new).evolution() applied to clone(old) must leave no residual diff."""
    old = _project(old_models)
    new = _project(new_models)
    saved = diffmod.get_model
    diffmod.get_model = lambda app_label, model_name: _FakeModel(has_default, default)
    try:
        d = Diff(old, new)
        evo = d.evolution()
    finally:
        diffmod.get_model = saved
    sim = old.clone()
    for app_label, muts in evo.items():
        for m in muts:
            m.run_simulation(app_label=app_label, project_sig=sim, database_state=None,
                             database='default')
    return Diff(sim, new).is_empty(False) and Diff(new, sim).is_empty(False) and \
        bool(d.is_empty(False)) == (not evo)


ATTR_BITS = {'null': 1, 'len': 2, 'idx': 4, 'uniq': 8, 'col': 16}


def _mask_ok(p_null_o, p_null_n, p_len_o, p_len_n, p_idx_o, p_idx_n, p_uniq_n, p_col_n):
    """Partition component 3 is a bit mask of the attributes allowed to be stated at all."""
    mask = hx.part(3, 31)
    return ((mask & 1 or not (p_null_o or p_null_n)) and
            (mask & 2 or not (p_len_o or p_len_n)) and
            (mask & 4 or not (p_idx_o or p_idx_n)) and
            (mask & 8 or not p_uniq_n) and
            (mask & 16 or not p_col_n))


def _mode_ok(mode, t_old, t_new, rel_old, rel_new, p_null_o, p_len_o, p_idx_o,
             p_null_n, p_len_n, p_idx_n, p_uniq_n, p_col_n):
    if t_old < 4 and rel_old:
        return False
    if t_new < 4 and rel_new:
        return False
    if mode != 0 and t_old != t_new:
        return False                      # only the in-place change uses both types
    if mode == 1 and (p_null_o or p_len_o or p_idx_o or rel_old):
        return False                      # added field: no old side
    if mode >= 2 and (p_null_n or p_len_n or p_idx_n or p_uniq_n or p_col_n or rel_new):
        return False                      # deleted field/model: no new side
    return True


def h_closure_field(mode: int, t_old: int, t_new: int, rel_old: int, rel_new: int,
                    p_null_o: bool, null_o: bool, p_null_n: bool, null_n: bool,
                    p_len_o: bool, len_o: int, p_len_n: bool, len_n: int,
                    p_idx_o: bool, idx_o: bool, p_idx_n: bool, idx_n: bool,
                    p_uniq_n: bool, uniq_n: bool, p_col_n: bool, col_n: int,
                    has_default: bool, default: int) -> bool:
    """Hint closure for one field: mode 0 changed in place, 1 added, 2 deleted, 3 model deleted.

    pre: 0 <= mode <= 3 and 0 <= t_old <= 5 and 0 <= t_new <= 5 and 0 <= rel_old <= 1 and 0 <= rel_new <= 1
    pre: 1 <= len_o <= 255 and 1 <= len_n <= 255 and 0 <= col_n <= 2
    pre: hx.in_part(mode, t_old, t_new)
    pre: _mode_ok(mode, t_old, t_new, rel_old, rel_new, p_null_o, p_len_o, p_idx_o, p_null_n, p_len_n, p_idx_n, p_uniq_n, p_col_n)
    pre: _mask_ok(p_null_o, p_null_n, p_len_o, p_len_n, p_idx_o, p_idx_n, p_uniq_n, p_col_n)
    pre: not hx.excluded(mode, t_old, t_new, rel_old, rel_new, p_null_o, null_o, p_null_n, null_n, p_len_o, len_o, p_len_n, len_n, p_idx_o, idx_o, p_idx_n, idx_n, p_uniq_n, uniq_n, p_col_n, col_n, has_default, default)
    post: _
    """
    ao = _attrs(t_old, p_null_o, null_o, p_len_o, len_o, p_idx_o, idx_o, False, False, False, None)
    an = _attrs(t_new, p_null_n, null_n, p_len_n, len_n, p_idx_n, idx_n, p_uniq_n, uniq_n,
                p_col_n, hx.pick(COLS, col_n) if p_col_n else None)
    if mode == 0:
        if hx.kf('c05_retype_explicit_null_false') and t_old != t_new and p_null_n and not null_n:
            return hx.verdict(True, False)
    keep = FieldSignature('keep', models.IntegerField, {})
    fo = _field('f', t_old, ao, rel_old)
    fn = _field('f', t_new, an, rel_new)
    if mode == 0:
        old_m, new_m = [_model('M', [keep.clone(), fo])], [_model('M', [keep.clone(), fn])]
    elif mode == 1:
        old_m, new_m = [_model('M', [keep.clone()])], [_model('M', [keep.clone(), fn])]
    elif mode == 2:
        old_m, new_m = [_model('M', [keep.clone(), fo])], [_model('M', [keep.clone()])]
    else:
        old_m, new_m = [_model('M', [keep.clone(), fo])], []
    try:
        ok = _closure(old_m, new_m, has_default, default)
    except SimulationFailure:
        # a hinted AddField/ChangeField to non-null without a usable default legitimately carries
        # the NullFieldInitialCallback placeholder (initial is not None, so it still simulates);
        # any SimulationFailure of a hinted evolution is a failure of closure
        ok = False
    return hx.verdict(ok, True)


def _closure_meta_core(ut_o, ut_n, it_o, it_n, io1, io2, in1, in2, swap_n,
                       co1, co2, cn1, cn2, cswap_n, com_o=None, com_n=None):
    fields = lambda: [FieldSignature('a', models.IntegerField, {}),
                      FieldSignature('b', models.IntegerField, {}),
                      FieldSignature('c', models.IntegerField, {})]
    idx_o = _meta_lists(io1 and _index(io1, 1, 0), io2 and _index(io2, 2, 0), False)
    idx_n = _meta_lists(in1 and _index(in1, 1, 0), in2 and _index(in2, 2, 0), swap_n)
    con_o = _meta_lists(co1 and _constraint(co1, 0), co2 and _constraint(co2, 1), False)
    con_n = _meta_lists(cn1 and _constraint(cn1, 0), cn2 and _constraint(cn2, 1), cswap_n)
    mo = _model('M', fields(), TOGETHERS[ut_o], TOGETHERS[it_o], idx_o, con_o, com_o)
    mn = _model('M', fields(), TOGETHERS[ut_n], TOGETHERS[it_n], idx_n, con_n, com_n)
    try:
        return _closure([mo], [mn], False, 0)
    except SimulationFailure:
        return False


def h_closure_togethers(ut_o: int, ut_n: int, it_o: int, it_n: int) -> bool:
    """Hint closure for unique_together / index_together changes.

    pre: 0 <= ut_o <= 5 and 0 <= ut_n <= 5 and 0 <= it_o <= 5 and 0 <= it_n <= 5
    pre: hx.in_part(ut_o, ut_n)
    pre: not hx.excluded(ut_o, ut_n, it_o, it_n)
    post: _
    """
    return hx.verdict(_closure_meta_core(ut_o, ut_n, it_o, it_n, 0, 0, 0, 0, False,
                                         0, 0, 0, 0, False), True)


def h_closure_meta_mix(ut_o: int, ut_n: int, it_o: int, it_n: int, io1: int, in1: int,
                       co1: int, cn1: int) -> bool:
    """Hint closure when several Meta properties of one model change in the same diff
    (unique_together, index_together, indexes, constraints together; db_table_comment cannot be
    changed on SQLite - supported_change_meta - and stays out).

    pre: 0 <= ut_o <= 1 and 0 <= ut_n <= 1 and 0 <= it_o <= 1 and 0 <= it_n <= 1
    pre: 0 <= io1 <= 2 and 0 <= in1 <= 2 and 0 <= co1 <= 2 and 0 <= cn1 <= 2
    pre: hx.in_part(io1, in1)
    pre: not hx.excluded(ut_o, ut_n, it_o, it_n, io1, in1, co1, cn1)
    post: _
    """
    changed = ((ut_o != ut_n) + (it_o != it_n) + (io1 != in1) + (co1 != cn1))
    ok = _closure_meta_core(ut_o, ut_n, it_o, it_n, io1, 0, in1, 0, False,
                            co1, 0, cn1, 0, False)
    return hx.verdict(ok, changed >= 2)


def h_closure_indexes(io1: int, io2: int, in1: int, in2: int, swap_n: bool,
                      co1: int, cn1: int, cn2: int, cswap_n: bool) -> bool:
    """Hint closure for Meta.indexes and Meta.constraints changes.

    pre: 0 <= io1 <= 5 and 0 <= io2 <= 5 and 0 <= in1 <= 5 and 0 <= in2 <= 5
    pre: 0 <= co1 <= 2 and 0 <= cn1 <= 2 and 0 <= cn2 <= 2
    pre: (co1 == 0 and cn1 == 0 and cn2 == 0 and not cswap_n) or (io1 == 0 and io2 == 0 and in1 == 0 and in2 == 0 and not swap_n)
    pre: hx.in_part(io1, io2)
    pre: not hx.excluded(io1, io2, in1, in2, swap_n, co1, cn1, cn2, cswap_n)
    post: _
    """
    return hx.verdict(_closure_meta_core(0, 0, 0, 0, io1, io2, in1, in2, swap_n,
                                         co1, 0, cn1, cn2, cswap_n), True)
