"""C09 - execution order respects dependencies. CrossHair harnesses over utils/graph.py."""
from vlib import boot  # noqa
from vlib import hx

from django_evolution.utils.graph import DependencyGraph


def _acyclic(n, edges):
    # Kahn's algorithm on concrete bools (reference oracle)
    deps = {i: set(j for j in range(n) if (i, j) in edges) for i in range(n)}
    done = []
    while True:
        ready = [i for i in range(n) if i not in done and deps[i] <= set(done)]
        if not ready:
            break
        done.append(ready[0])
    return len(done) == n


def _order_ok(n, bits):
    """Core: node i depends on node j iff the bit for (i, j) is set."""
    pairs = [(i, j) for i in range(n) for j in range(n) if i != j]
    edges = set()
    for p, b in zip(pairs, bits):
        if b:
            edges.add(p)
    g = DependencyGraph()
    for i in range(n):
        g.add_node('n%d' % i)
    for (i, j) in sorted(edges):
        g.add_dependency('n%d' % i, 'n%d' % j)
    g.finalize()
    acyclic = _acyclic(n, edges)
    try:
        order = [node.key for node in g.get_ordered()]
    except Exception:
        # an error is the demanded behaviour for unsatisfiable requirements only
        return not acyclic
    if not acyclic:
        if hx.kf('c09_cycle_silent'):
            return True
        return False  # cycle silently "ordered"
    if sorted(order) != ['n%d' % i for i in range(n)]:
        return False
    pos = dict((k, idx) for idx, k in enumerate(order))
    for (i, j) in edges:
        if not pos['n%d' % j] < pos['n%d' % i]:
            return False
    return True


def h_order3(b0: bool, b1: bool, b2: bool, b3: bool, b4: bool, b5: bool) -> bool:
    """
    pre: not hx.excluded(b0, b1, b2, b3, b4, b5)
    post: _
    """
    bits = [b0, b1, b2, b3, b4, b5]
    ok = _order_ok(3, bits)
    return hx.verdict(ok, any(bits))


def h_order4(b0: bool, b1: bool, b2: bool, b3: bool, b4: bool, b5: bool,
             b6: bool, b7: bool, b8: bool, b9: bool, b10: bool, b11: bool) -> bool:
    """
    pre: hx.in_part(b0, b1, b2, b3)
    pre: not hx.excluded(b0, b1, b2, b3, b4, b5, b6, b7, b8, b9, b10, b11)
    post: _
    """
    bits = [b0, b1, b2, b3, b4, b5, b6, b7, b8, b9, b10, b11]
    ok = _order_ok(4, bits)
    return hx.verdict(ok, any(bits))


# ---------------------------------------------------------------------------------------
# (b) EvolutionGraph over fake app modules

import sys
import types

import django_evolution.utils.graph as graphmod
import django_evolution.utils.evolutions as evomod
from django_evolution.models import Evolution
from django_evolution.utils.graph import EvolutionGraph, CircularDependencyError

N_APPS = 3


class _FakeApps(object):
    """Installs fake app modules vfa0..vfa2 (models module, evolutions package, one module per
    evolution label) and makes get_app_label/get_app_name answer for them."""

    def __init__(self, specs):
        self.specs = specs          # per app: {'labels': [...], 'app_deps': {...}, 'evo_deps': {label: {...}}}
        self.apps = []

    def __enter__(self):
        with hx.NoTracing():
            return self._enter()

    def _enter(self):
        self.saved_modules = {}
        self.saved = {}
        for i, spec in enumerate(self.specs):
            name = 'vfa%d' % i
            app = types.ModuleType(name + '.models')
            app._v_label = name
            self.apps.append(app)
            evo = types.ModuleType(name + '.evolutions')
            evo.SEQUENCE = list(spec['labels'])
            for k, v in spec['app_deps'].items():
                setattr(evo, k, list(v))
            mods = {name: types.ModuleType(name), name + '.models': app, name + '.evolutions': evo}
            for label in spec['labels']:
                m = types.ModuleType('%s.evolutions.%s' % (name, label))
                m.MUTATIONS = []
                for k, v in spec['evo_deps'].get(label, {}).items():
                    setattr(m, k, list(v))
                mods['%s.evolutions.%s' % (name, label)] = m
            for k, v in mods.items():
                self.saved_modules[k] = sys.modules.get(k)
                sys.modules[k] = v
        for mod, attr in ((graphmod, 'get_app_label'), (evomod, 'get_app_label'),
                          (evomod, 'get_app_name')):
            self.saved[(mod, attr)] = getattr(mod, attr)
            setattr(mod, attr, lambda app: app._v_label)
        # the import machinery itself is executed untraced (it is not under test and CrossHair
        # stalls inside importlib's locking code)
        real_import = evomod.import_module
        self.saved[(evomod, 'import_module')] = real_import

        def untraced_import(name, package=None):
            with hx.NoTracing():
                return real_import(name, package)
        evomod.import_module = untraced_import
        return self

    def __exit__(self, *a):
        with hx.NoTracing():
            return self._exit()

    def _exit(self):
        for (mod, attr), v in self.saved.items():
            setattr(mod, attr, v)
        for k, v in self.saved_modules.items():
            if v is None:
                sys.modules.pop(k, None)
            else:
                sys.modules[k] = v
        return False


def _dep(kind, from_app, to_app, to_label_i):
    """kind 0 none; 1 AFTER_EVOLUTIONS (app, label); 2 AFTER_EVOLUTIONS app; 3 BEFORE_EVOLUTIONS
    (app, label); 4 BEFORE_EVOLUTIONS app."""
    target_app = 'vfa%d' % to_app
    label = ['e1', 'e2'][to_label_i]
    if kind == 1:
        return {'AFTER_EVOLUTIONS': [(target_app, label)]}
    if kind == 2:
        return {'AFTER_EVOLUTIONS': [target_app]}
    if kind == 3:
        return {'BEFORE_EVOLUTIONS': [(target_app, label)]}
    if kind == 4:
        return {'BEFORE_EVOLUTIONS': [target_app]}
    return {}


def _graph_order(n0, n1, n2, d_kind, d_level, d_from, d_to, d_label, d_on, order, applied_mask):
    """Build the graph the way EvolveAppTask._build_evolutions_graph does and return the flattened
    order of evolution keys, or raise."""
    counts = [n0, n1, n2]
    specs = []
    for i in range(N_APPS):
        labels = ['e1', 'e2'][:counts[i]]
        spec = {'labels': labels, 'app_deps': {}, 'evo_deps': {}}
        specs.append(spec)
    dep = _dep(d_kind, d_from, d_to, d_label)
    if dep:
        if d_level == 0:
            specs[d_from]['app_deps'] = dep
        else:
            lab = ['e1', 'e2'][d_on]
            specs[d_from]['evo_deps'][lab] = dep
    # which evolutions are already applied (bit i*2+j)
    applied = [[lab for j, lab in enumerate(specs[i]['labels']) if applied_mask & (1 << (i * 2 + j))]
               for i in range(N_APPS)]
    with _FakeApps(specs) as fa:
        g = EvolutionGraph()
        g.process_migration_deps = False
        idx = [[0, 1, 2], [2, 1, 0]][order]
        for i in idx:
            pending = [lab for lab in specs[i]['labels'] if lab not in applied[i]]
            evs = [Evolution(app_label='vfa%d' % i, label=lab) for lab in pending]
            if evs:
                g.add_evolutions(app=fa.apps[i], evolutions=evs, extra_state={'task': i})
        for i in range(N_APPS):
            g.mark_evolutions_applied(app=fa.apps[i], evolution_labels=list(applied[i]))
        g.finalize()
        out = []
        for btype, nodes in g.iter_batches():
            for node in nodes:
                out.append(node.key)
    return out, specs, applied


def _graph_inputs_ok(n0, n1, n2, a0, a1, a2, d_kind, d_level, d_from, d_to, d_label, d_on, order):
    if not (0 <= n0 <= 2 and 0 <= n1 <= 2 and 0 <= n2 <= 2 and 0 <= d_kind <= 4 and
            0 <= d_level <= 1 and 0 <= d_from <= 2 and 0 <= d_to <= 2 and d_from != d_to and
            0 <= d_label <= 1 and 0 <= d_on <= 1 and 0 <= order <= 1):
        return False
    counts = [n0, n1, n2]
    if not (0 <= a0 <= n0 and 0 <= a1 <= n1 and 0 <= a2 <= n2):
        return False                        # applied evolutions are a prefix of the sequence
    if d_kind == 0:
        return d_level == 0 and d_from == 0 and d_to == 1 and d_label == 0 and d_on == 0
    # well-formed declarations only: the declaring evolution/app exists, a named target exists
    if d_level == 1 and d_on >= counts[d_from]:
        return False
    if d_level == 0 and (counts[d_from] == 0 or d_on != 0):
        return False
    if d_kind in (1, 3) and d_label >= counts[d_to]:
        return False
    if d_kind in (2, 4) and d_label != 0:
        return False
    return True


def h_evolution_graph(d_kind: int, d_level: int, d_from: int, n0: int, n1: int, n2: int,
                      a0: int, a1: int, a2: int, d_to: int, d_label: int, d_on: int,
                      order: int) -> bool:
    """Sequence order inside an app, one declared before/after requirement (evolution or app level,
    targeting an evolution or a whole app), registration order of the apps, already-applied
    prefixes: every pending evolution exactly once, all requirements between pending units
    honoured, requirements on applied units ignored without error.

    pre: _graph_inputs_ok(n0, n1, n2, a0, a1, a2, d_kind, d_level, d_from, d_to, d_label, d_on, order)
    pre: hx.in_part(d_kind, d_level, d_from)
    pre: not hx.excluded(d_kind, d_level, d_from, n0, n1, n2, a0, a1, a2, d_to, d_label, d_on, order)
    post: _
    """
    (n0, n1, n2, a0, a1, a2, d_kind, d_level, d_from, d_to, d_label, d_on, order) = [
        hx.realize(x) for x in (n0, n1, n2, a0, a1, a2, d_kind, d_level, d_from, d_to, d_label,
                                d_on, order)]
    applied_mask = 0
    for i, a in enumerate((a0, a1, a2)):
        applied_mask |= ((1 << a) - 1) << (i * 2)
    try:
        out, specs, applied = _graph_order(n0, n1, n2, d_kind, d_level, d_from, d_to, d_label,
                                           d_on, order, applied_mask)
    except CircularDependencyError:
        return hx.verdict(False, True)      # a single requirement between different apps is satisfiable
    pending = []
    for i in range(N_APPS):
        for lab in specs[i]['labels']:
            if lab not in applied[i]:
                pending.append('evolution:vfa%d:%s' % (i, lab))
    ok = sorted(out) == sorted(pending)                 # each pending unit exactly once
    pos = dict((k, j) for j, k in enumerate(out))
    for i in range(N_APPS):                               # sequence order within an app
        ks = [k for k in pending if k.startswith('evolution:vfa%d:' % i)]
        for a, b in zip(ks, ks[1:]):
            ok = ok and pos.get(a, -1) < pos.get(b, -1)
    if d_kind and ok:
        src = [k for k in pending if k.startswith('evolution:vfa%d:' % d_from)]
        if d_level == 1:
            src = [k for k in src if k.endswith(':' + ['e1', 'e2'][d_on])]
        dst = [k for k in pending if k.startswith('evolution:vfa%d:' % d_to)]
        if d_kind in (1, 3):
            dst = [k for k in dst if k.endswith(':' + ['e1', 'e2'][d_label])]
        for s in src:
            for t in dst:
                if d_kind in (1, 2):
                    ok = ok and pos[t] < pos[s]      # source runs AFTER the target
                else:
                    ok = ok and pos[s] < pos[t]      # source runs BEFORE the target
    return hx.verdict(ok, bool(d_kind) and len(pending) >= 2)


def h_order5(b0: bool, b1: bool, b2: bool, b3: bool, b4: bool, b5: bool, b6: bool, b7: bool,
             b8: bool, b9: bool, b10: bool, b11: bool, b12: bool, b13: bool, b14: bool,
             b15: bool, b16: bool, b17: bool, b18: bool, b19: bool) -> bool:
    """Digraphs on 5 nodes (thorough tier): partitioned on the first 12 edge bits; each partition
    run is exhaustive over the remaining 8 bits, the set of partitions run is a seeded sample.

    pre: hx.in_part(b0, b1, b2, b3, b4, b5, b6, b7, b8, b9, b10, b11)
    post: _
    """
    bits = [b0, b1, b2, b3, b4, b5, b6, b7, b8, b9, b10, b11, b12, b13, b14, b15, b16, b17,
            b18, b19]
    ok = _order_ok(5, bits)
    return hx.verdict(ok, any(bits))


from django_evolution.mutations import MoveToDjangoMigrations
from django_evolution.utils.evolutions import get_evolution_dependencies


def h_evolution_deps(d_ae: bool, d_am: bool, d_be: bool, d_bm: bool, move: int, custom: bool) -> bool:
    """get_evolution_dependencies: the dependencies of an evolution are the union of what its module
    (or custom evolution entry) declares and what its mutations generate (MoveToDjangoMigrations
    implies "after the migrations it marks as applied").

    move: 0 no such mutation, 1 MoveToDjangoMigrations(), 2 MoveToDjangoMigrations(mark_applied=[two])
    pre: 0 <= move <= 2
    post: _
    """
    declared = {
        'AFTER_EVOLUTIONS': [('vfa1', 'e1')] if d_ae else [],
        'AFTER_MIGRATIONS': [('vfa1', '0002_more')] if d_am else [],
        'BEFORE_EVOLUTIONS': ['vfa2'] if d_be else [],
        'BEFORE_MIGRATIONS': [('vfa2', '0001_initial')] if d_bm else [],
    }
    muts = []
    generated = set()
    if move == 1:
        muts = [MoveToDjangoMigrations()]
        generated = set([('vfa0', '0001_initial')])
    elif move == 2:
        muts = [MoveToDjangoMigrations(mark_applied=['0001_initial', '0002_x'])]
        generated = set([('vfa0', '0001_initial'), ('vfa0', '0002_x')])
    specs = [{'labels': ['e1'], 'app_deps': {}, 'evo_deps': {}} for _i in range(N_APPS)]
    custom_evolutions = []
    if custom:
        # no module for e1 of app 0: the custom-evolution entry carries everything
        specs[0]['labels'] = []
        custom_evolutions = [{
            'label': 'e1', 'mutations': muts,
            'after_evolutions': declared['AFTER_EVOLUTIONS'], 'after_migrations': declared['AFTER_MIGRATIONS'],
            'before_evolutions': declared['BEFORE_EVOLUTIONS'], 'before_migrations': declared['BEFORE_MIGRATIONS'],
        }]
    else:
        specs[0]['evo_deps']['e1'] = dict((k, v) for k, v in declared.items() if v)
    with _FakeApps(specs) as fa:
        if not custom:
            sys.modules['vfa0.evolutions.e1'].MUTATIONS = muts
        deps = get_evolution_dependencies(app=fa.apps[0], evolution_label='e1',
                                          custom_evolutions=custom_evolutions)
    ok = deps is not None
    if ok:
        ok = (set(deps['after_evolutions']) == set(declared['AFTER_EVOLUTIONS']) and
              set(deps['after_migrations']) == set(declared['AFTER_MIGRATIONS']) | generated and
              set(deps['before_evolutions']) == set(declared['BEFORE_EVOLUTIONS']) and
              set(deps['before_migrations']) == set(declared['BEFORE_MIGRATIONS']))
    return hx.verdict(ok, bool(move) or d_ae or d_am or d_be or d_bm)


class _FakeMeta(object):
    def __init__(self, name):
        self.model_name = name
        self.object_name = name


class _FakeModelCls(object):
    def __init__(self, name):
        self._meta = _FakeMeta(name)


def h_graph_models(d_kind: int, d_from: int, d_to: int, n0: int, n1: int, n2: int,
                   a0: int, a1: int, a2: int, m0: bool, m1: bool, m2: bool, order: int) -> bool:
    """Apps that (also) have models to create: an app is registered when it has pending evolutions
    or new models (as EvolveAppTask._build_evolutions_graph does); its create-model unit runs before
    its evolutions; an app-level AFTER_/BEFORE_EVOLUTIONS declaration binds all units of the
    declaring app, also when only a model creation is pending.

    d_kind: 0 none, 1 AFTER (app, 'e1'), 2 AFTER app, 3 BEFORE (app, 'e1'), 4 BEFORE app
    pre: 0 <= d_kind <= 4 and 0 <= d_from <= 2 and 0 <= d_to <= 2 and d_from != d_to and 0 <= order <= 1
    pre: 0 <= n0 <= 1 and 0 <= n1 <= 1 and 0 <= n2 <= 1 and 0 <= a0 <= n0 and 0 <= a1 <= n1 and 0 <= a2 <= n2
    pre: d_kind != 0 or (d_from == 0 and d_to == 1)
    pre: hx.in_part(d_kind, d_from, d_to)
    pre: not hx.excluded(d_kind, d_from, d_to, n0, n1, n2, a0, a1, a2, m0, m1, m2, order)
    post: _
    """
    (d_kind, d_from, d_to, n0, n1, n2, a0, a1, a2, order) = [
        hx.realize(x) for x in (d_kind, d_from, d_to, n0, n1, n2, a0, a1, a2, order)]
    new = [bool(hx.realize(x)) for x in (m0, m1, m2)]
    counts, applied_n = [n0, n1, n2], [a0, a1, a2]
    if d_kind in (1, 3) and counts[d_to] == 0:
        return hx.verdict(True, False)          # a named target evolution must exist
    specs = [{'labels': ['e1'][:counts[i]], 'app_deps': {}, 'evo_deps': {}} for i in range(N_APPS)]
    dep = _dep(d_kind, d_from, d_to, 0)
    if dep:
        specs[d_from]['app_deps'] = dep
    applied = [specs[i]['labels'][:applied_n[i]] for i in range(N_APPS)]
    try:
        with _FakeApps(specs) as fa:
            g = EvolutionGraph()
            g.process_migration_deps = False
            for i in [[0, 1, 2], [2, 1, 0]][order]:
                pending = [lab for lab in specs[i]['labels'] if lab not in applied[i]]
                evs = [Evolution(app_label='vfa%d' % i, label=lab) for lab in pending]
                models_ = [_FakeModelCls('m%d' % i)] if new[i] else []
                if evs or models_:
                    g.add_evolutions(app=fa.apps[i], evolutions=evs, new_models=models_,
                                     extra_state={'task': i})
            for i in range(N_APPS):
                g.mark_evolutions_applied(app=fa.apps[i], evolution_labels=list(applied[i]))
            g.finalize()
            out = [node.key for _bt, nodes in g.iter_batches() for node in nodes]
    except CircularDependencyError:
        return hx.verdict(False, True)
    units = {}
    for i in range(N_APPS):
        units[i] = (['create-model:vfa%d:m%d' % (i, i)] if new[i] else []) + \
            ['evolution:vfa%d:%s' % (i, lab) for lab in specs[i]['labels'] if lab not in applied[i]]
    pending_all = [u for i in range(N_APPS) for u in units[i]]
    ok = sorted(out) == sorted(pending_all)
    pos = dict((k, j) for j, k in enumerate(out))
    if ok:
        for i in range(N_APPS):
            for a, b in zip(units[i], units[i][1:]):
                ok = ok and pos[a] < pos[b]
        if d_kind:
            src = units[d_from]
            dst = units[d_to]
            if d_kind in (1, 3):
                dst = [u for u in dst if u.endswith(':e1')]
            for s in src:
                for t in dst:
                    ok = ok and (pos[t] < pos[s] if d_kind in (1, 2) else pos[s] < pos[t])
    return hx.verdict(ok, bool(d_kind) and len(pending_all) >= 2)
