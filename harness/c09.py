"""C09 - execution order respects dependencies. CrossHair harnesses over utils/graph.py."""
from vlib import boot  # noqa
from vlib import hx

from django_evolution.utils.graph import DependencyGraph


def _acyclic(n, edges):
    # Kahn's algorithm on concrete bools (reference oracle)
    deps = {i: set(j for j in range(n) if (i, j) in edges) for i in range(n)}
    done = []
    while True:
        ready = [i for i in range(n) if i not in done and deps[i] <= set(done)]
        if not ready:
            break
        done.append(ready[0])
    return len(done) == n


def _order_ok(n, bits):
    """Core: node i depends on node j iff the bit for (i, j) is set."""
    pairs = [(i, j) for i in range(n) for j in range(n) if i != j]
    edges = set()
    for p, b in zip(pairs, bits):
        if b:
            edges.add(p)
    g = DependencyGraph()
    for i in range(n):
        g.add_node('n%d' % i)
    for (i, j) in sorted(edges):
        g.add_dependency('n%d' % i, 'n%d' % j)
    g.finalize()
    acyclic = _acyclic(n, edges)
    try:
        order = [node.key for node in g.get_ordered()]
    except Exception:
        # an error is the demanded behaviour for unsatisfiable requirements only
        return not acyclic
    if not acyclic:
        if hx.kf('c09_cycle_silent'):
            return True
        return False  # cycle silently "ordered"
    if sorted(order) != ['n%d' % i for i in range(n)]:
        return False
    pos = dict((k, idx) for idx, k in enumerate(order))
    for (i, j) in edges:
        if not pos['n%d' % j] < pos['n%d' % i]:
            return False
    return True


def h_order3(b0: bool, b1: bool, b2: bool, b3: bool, b4: bool, b5: bool) -> bool:
    """
    pre: not hx.excluded(b0, b1, b2, b3, b4, b5)
    post: _
    """
    bits = [b0, b1, b2, b3, b4, b5]
    ok = _order_ok(3, bits)
    return hx.verdict(ok, any(bits))


def h_order4(b0: bool, b1: bool, b2: bool, b3: bool, b4: bool, b5: bool,
             b6: bool, b7: bool, b8: bool, b9: bool, b10: bool, b11: bool) -> bool:
    """
    pre: hx.in_part(b0, b1, b2, b3)
    pre: not hx.excluded(b0, b1, b2, b3, b4, b5, b6, b7, b8, b9, b10, b11)
    post: _
    """
    bits = [b0, b1, b2, b3, b4, b5, b6, b7, b8, b9, b10, b11]
    ok = _order_ok(4, bits)
    return hx.verdict(ok, any(bits))
