"""C11 - renames and deletions keep every cross-reference consistent (signature level).

Project: two apps, three models (two in app 0, one in app 1), every model has a pk and may
hold one ForeignKey and one ManyToManyField to any model (symbolic target index). App labels,
model names and field names are picked by symbolic index from pools that contain the dangerous
relations (single-character labels equal to the first character of a model name, names that are
prefixes of each other, a label equal to a model name, equal model names in different apps).

A reference model tracks the *identity* each relation points at; after every accepted mutation
the signature must name that identity under its current "app_label.ModelName", and every
relation must resolve unless its target was deleted by the sequence.
"""
from vlib import boot  # noqa
from vlib import hx

from django.db import models

from django_evolution.errors import SimulationFailure
from django_evolution.mutations import (DeleteApplication, DeleteField, DeleteModel,
                                        RenameAppLabel, RenameField, RenameModel)
from django_evolution.signature import (AppSignature, FieldSignature, ModelSignature,
                                        ProjectSignature)

LABELS = ['T', 'Tx', 'a']        # 'T' == 'Tx'[0]; 'T' prefix of 'Tx'; 'Tx' and 'a' are also model names
MODELS = ['Tx', 'TxY', 'a']      # 'Tx' prefix of 'TxY'; 'a' and 'Tx' equal labels
FIELDS = ['ref', 'refs', 'id2']

# relation structures: (fk target per model, m2m target per model); -1 = none.
# model identities 0, 1 live in app 0, identity 2 in app 1.
SHAPES = [
    ([1, -1, 0], [-1, 2, -1]),   # 0 -FK-> 1 (same app), 1 -M2M-> 2 (cross), 2 -FK-> 0 (cross)
    ([2, 0, 2], [-1, -1, 0]),    # self reference 2 -> 2, 0 -> 2, 1 -> 0, 2 -M2M-> 0
    ([0, 2, 1], [2, -1, 0]),     # self reference 0 -> 0, both directions of M2M across apps
    ([-1, 1, 1], [1, 0, -1]),    # self reference 1 -> 1, M2M inside one app both ways
    ([1, -1, 0], [1, 2, 0]),     # two relations of one holder to the same target (0 -> 1 twice, 2 -> 0 twice)
]


def _build(l0, l1, n0, n1, n2, shape):
    """fk[i], m2m[i]: target model identity (0..2) or -1 for none."""
    fk, m2m = SHAPES[shape]
    labels = [LABELS[l0], LABELS[l1]]
    names = [MODELS[n0], MODELS[n1], MODELS[n2]]
    owner = [0, 0, 1]
    proj = ProjectSignature()
    apps = [AppSignature(app_id=labels[0]), AppSignature(app_id=labels[1])]
    for a in apps:
        proj.add_app_sig(a)
    for i in range(3):
        ms = ModelSignature(model_name=names[i], table_name='t%d' % i, pk_column='id')
        ms.add_field_sig(FieldSignature('id', models.AutoField, {'primary_key': True}))
        if fk[i] >= 0:
            t = fk[i]
            ms.add_field_sig(FieldSignature('ref', models.ForeignKey, {},
                                            related_model='%s.%s' % (labels[owner[t]], names[t])))
        if m2m[i] >= 0:
            t = m2m[i]
            ms.add_field_sig(FieldSignature('refs', models.ManyToManyField, {},
                                            related_model='%s.%s' % (labels[owner[t]], names[t])))
        apps[owner[i]].add_model_sig(ms)
    # reference state
    ref = {
        'label': labels[:],           # current label of each app identity
        'name': names[:],             # current name of each model identity
        'owner': owner[:],
        'alive': [True, True, True],
        # relation: (holder identity, field name) -> target identity
        'rel': {},
    }
    for i in range(3):
        if fk[i] >= 0:
            ref['rel'][(i, 'ref')] = fk[i]
        if m2m[i] >= 0:
            ref['rel'][(i, 'refs')] = m2m[i]
    return proj, ref


def _app_by_id(proj, app_id):
    """Exact lookup by current app id (ProjectSignature.get_app_sig also matches legacy labels)."""
    for a in proj.app_sigs:
        if a.app_id == app_id:
            return a
    return None


def _consistent(proj, ref):
    """Every live relation names its target identity under its current name and resolves."""
    for (holder, fname), target in ref['rel'].items():
        if not ref['alive'][holder]:
            continue
        app_sig = _app_by_id(proj, ref['label'][ref['owner'][holder]])
        if app_sig is None:
            return False
        model_sig = app_sig.get_model_sig(ref['name'][holder])
        if model_sig is None:
            return False
        field_sig = model_sig.get_field_sig(fname)
        if field_sig is None:
            return False
        if not ref['alive'][target]:
            continue    # explicitly deleted target: dangling is allowed by the property
        expect = '%s.%s' % (ref['label'][ref['owner'][target]], ref['name'][target])
        if field_sig.related_model != expect:
            return False
        tl, tn = field_sig.related_model.split('.', 1)
        ta = _app_by_id(proj, tl)
        if ta is None or ta.get_model_sig(tn) is None:
            return False
    # and nothing else in the signature carries a relation we do not know about
    return True


def _apply(proj, ref, kind, x, y, z):
    """Apply one mutation chosen by (kind, x, y, z). Returns 'ok' | 'invalid' | 'rejected'.

    kind 0 RenameModel(model x -> MODELS[y])       1 RenameAppLabel(app x%2 -> LABELS[y])
         2 RenameField(model x, ref/refs by z, -> 'id2')   3 DeleteField(model x, ref/refs by z)
         4 DeleteModel(model x)                     5 DeleteApplication(app x%2)
    z: True = the M2M field 'refs', False = the FK 'ref', None = whichever the model has.
    """
    if z is None and kind in (2, 3):
        z = (x, 'ref') not in ref['rel']
    if kind in (0, 2, 3, 4):
        if not ref['alive'][x]:
            return 'invalid'
        app_i = ref['owner'][x]
        app_label = ref['label'][app_i]
    else:
        app_i = x % 2
        app_label = ref['label'][app_i]
        if not any(ref['alive'][i] for i in range(3) if ref['owner'][i] == app_i):
            return 'invalid'
    if kind == 0:
        new = MODELS[y]
        if any(ref['alive'][i] and ref['owner'][i] == app_i and ref['name'][i] == new
               for i in range(3)):
            return 'invalid'    # target name in use (or unchanged)
        m = RenameModel(ref['name'][x], new, db_table='t%d' % x)
    elif kind == 1:
        new = LABELS[y]
        if new in ref['label']:
            return 'invalid'    # label in use (or unchanged)
        m = RenameAppLabel(app_label, new, legacy_app_label=app_label)
    elif kind == 2:
        old = 'refs' if z else 'ref'
        new = 'id2'
        if (x, old) not in ref['rel'] or (x, new) in ref['rel']:
            return 'invalid'
        m = RenameField(ref['name'][x], old, new)
    elif kind == 3:
        old = 'refs' if z else 'ref'
        if (x, old) not in ref['rel']:
            return 'invalid'
        m = DeleteField(ref['name'][x], old)
    elif kind == 4:
        m = DeleteModel(ref['name'][x])
    else:
        m = DeleteApplication()
    try:
        m.run_simulation(app_label=app_label, project_sig=proj, database_state=None,
                         database='default')
    except SimulationFailure:
        return 'rejected'
    # advance the reference model
    if kind == 0:
        ref['name'][x] = MODELS[y]
    elif kind == 1:
        ref['label'][app_i] = LABELS[y]
    elif kind == 2:
        ref['rel'][(x, 'id2')] = ref['rel'].pop((x, 'refs' if z else 'ref'))
    elif kind == 3:
        del ref['rel'][(x, 'refs' if z else 'ref')]
    elif kind == 4:
        ref['alive'][x] = False
    else:
        for i in range(3):
            if ref['owner'][i] == app_i:
                ref['alive'][i] = False
    return 'ok'


def _names_ok(l0, l1, n0, n1, n2):
    return (0 <= l0 < 3 and 0 <= l1 < 3 and l0 != l1 and
            0 <= n0 < 3 and 0 <= n1 < 3 and 0 <= n2 < 3 and n0 != n1)


def _mut_ok(kind, x, y):
    # parameter ranges per kind (unused parameters pinned to 0 so no path is counted twice)
    if kind == 0:
        return 0 <= x <= 2 and 0 <= y <= 2
    if kind == 1:
        return 0 <= x <= 1 and 0 <= y <= 2
    if kind in (2, 3, 4):
        return 0 <= x <= 2 and y == 0
    return kind == 5 and 0 <= x <= 1 and y == 0


def h_seq1(shape: int, kind: int, x: int, l0: int, l1: int, n0: int, n1: int, n2: int,
           y: int, z: bool) -> bool:
    """
    pre: 0 <= shape < len(SHAPES)
    pre: _names_ok(l0, l1, n0, n1, n2)
    pre: _mut_ok(kind, x, y) and (z is False or kind in (2, 3))
    pre: hx.in_part(shape, kind, x)
    pre: not hx.excluded(shape, kind, x, l0, l1, n0, n1, n2, y, z)
    pre: not (hx.kf('c11_rename_app_label') and kind == 1)
    post: _
    """
    proj, ref = _build(l0, l1, n0, n1, n2, shape)
    if not _consistent(proj, ref):
        raise AssertionError('harness: start signature inconsistent')
    r = _apply(proj, ref, kind, x, y, z)
    if r != 'ok':
        return hx.verdict(True, False)
    return hx.verdict(_consistent(proj, ref), True)


def h_seq2(shape: int, k1: int, k2: int, l0: int, l1: int, n0: int, n1: int, n2: int,
           x1: int, y1: int, x2: int, y2: int) -> bool:
    """
    pre: 0 <= shape < len(SHAPES)
    pre: _names_ok(l0, l1, n0, n1, n2)
    pre: _mut_ok(k1, x1, y1) and _mut_ok(k2, x2, y2)
    pre: hx.in_part(shape, k1, k2, l0, l1, n2)
    pre: not hx.excluded(shape, k1, k2, l0, l1, n0, n1, n2, x1, y1, x2, y2)
    pre: not (hx.kf('c11_rename_app_label') and (k1 == 1 or k2 == 1))
    post: _
    """
    proj, ref = _build(l0, l1, n0, n1, n2, shape)
    r = _apply(proj, ref, k1, x1, y1, None)
    if r != 'ok':
        return hx.verdict(True, False)
    if not _consistent(proj, ref):
        return hx.verdict(False, True)
    r = _apply(proj, ref, k2, x2, y2, None)
    if r != 'ok':
        return hx.verdict(True, False)
    return hx.verdict(_consistent(proj, ref), True)


def h_rename_label(shape: int, x: int, y: int, l0: int, l1: int, n0: int, n1: int, n2: int,
                   legacy: int, subset: int) -> bool:
    """RenameAppLabel with its optional arguments: legacy_app_label equal to the old label, absent or
    a different string; model_names absent, all models of the app, or only the first one (the
    others stay under the old label, as when one stored app id held two apps).

    pre: 0 <= shape < len(SHAPES)
    pre: _names_ok(l0, l1, n0, n1, n2)
    pre: 0 <= x <= 1 and 0 <= y <= 2 and 0 <= legacy <= 2 and 0 <= subset <= 2
    pre: hx.in_part(shape, x, subset)
    pre: not hx.excluded(shape, x, y, l0, l1, n0, n1, n2, legacy, subset)
    post: _
    """
    proj, ref = _build(l0, l1, n0, n1, n2, shape)
    old = ref['label'][x]
    new = LABELS[y]
    if new in ref['label']:
        return hx.verdict(True, False)
    members = [i for i in range(3) if ref['owner'][i] == x]
    if subset == 0:
        model_names, moved = None, members
    elif subset == 1:
        model_names, moved = [ref['name'][i] for i in members], members
    else:
        if len(members) < 2:
            return hx.verdict(True, False)
        moved = members[:1]
        model_names = [ref['name'][moved[0]]]
    leg = hx.pick([old, None, 'legacy'], legacy)
    try:
        RenameAppLabel(old, new, legacy_app_label=leg, model_names=model_names).run_simulation(
            app_label=old, project_sig=proj, database_state=None, database='default')
    except SimulationFailure:
        return hx.verdict(False, True)
    ref['label'].append(new)
    for i in moved:
        ref['owner'][i] = 2
    ok = _consistent(proj, ref)
    new_app = _app_by_id(proj, new)
    ok = ok and new_app is not None and new_app.legacy_app_label == (leg or new)   # AppSignature defaults it to the app id
    ok = ok and sorted(ms.model_name for ms in new_app.model_sigs) == sorted(ref['name'][i] for i in moved)
    old_app = _app_by_id(proj, old)
    if len(moved) == len(members):
        ok = ok and old_app is None
    else:
        ok = ok and old_app is not None and \
            sorted(ms.model_name for ms in old_app.model_sigs) == sorted(ref['name'][i] for i in members if i not in moved)
    return hx.verdict(ok, True)


def h_free_label(old: str, new: str, mname: str) -> bool:
    """Bug-hunting pass with unconstrained short strings (never part of a PASS).

    pre: 1 <= len(old) <= 3 and 1 <= len(new) <= 3 and 1 <= len(mname) <= 3
    pre: '.' not in old and '.' not in new and '.' not in mname and old != new and new != 'z'
    pre: old != 'z'
    pre: not hx.kf('c11_rename_app_label')
    post: _
    """
    proj = ProjectSignature()
    a = AppSignature(app_id=old)
    b = AppSignature(app_id='z')
    proj.add_app_sig(a)
    proj.add_app_sig(b)
    ms = ModelSignature(model_name=mname, table_name='t0', pk_column='id')
    ms.add_field_sig(FieldSignature('id', models.AutoField, {'primary_key': True}))
    a.add_model_sig(ms)
    other = ModelSignature(model_name='O', table_name='t1', pk_column='id')
    other.add_field_sig(FieldSignature('ref', models.ForeignKey, {},
                                       related_model='%s.%s' % (old, mname)))
    b.add_model_sig(other)
    RenameAppLabel(old, new, legacy_app_label=old).run_simulation(
        app_label=old, project_sig=proj, database_state=None, database='default')
    got = other.get_field_sig('ref').related_model
    return hx.verdict(got == '%s.%s' % (new, mname), True)


def h_free_model(old: str, new: str, other_name: str) -> bool:
    """Bug-hunting pass: RenameModel with free names; a reference to a different model that
    shares a prefix must stay, the reference to the renamed one must follow.

    pre: 1 <= len(old) <= 3 and 1 <= len(new) <= 3 and 1 <= len(other_name) <= 3
    pre: '.' not in old and '.' not in new and '.' not in other_name
    pre: old != new and old != other_name and new != other_name
    post: _
    """
    proj = ProjectSignature()
    a = AppSignature(app_id='app')
    proj.add_app_sig(a)
    for i, nm in enumerate((old, other_name)):
        ms = ModelSignature(model_name=nm, table_name='t%d' % i, pk_column='id')
        ms.add_field_sig(FieldSignature('id', models.AutoField, {'primary_key': True}))
        ms.add_field_sig(FieldSignature('r_old', models.ForeignKey, {}, related_model='app.' + old))
        ms.add_field_sig(FieldSignature('r_other', models.ManyToManyField, {}, related_model='app.' + other_name))
        a.add_model_sig(ms)
    RenameModel(old, new, db_table='t0').run_simulation(
        app_label='app', project_sig=proj, database_state=None, database='default')
    ok = True
    for nm in (new, other_name):
        ms = a.get_model_sig(nm)
        ok = ok and ms is not None and ms.get_field_sig('r_old').related_model == 'app.' + new \
            and ms.get_field_sig('r_other').related_model == 'app.' + other_name
    return hx.verdict(ok and a.get_model_sig(old) is None, True)
