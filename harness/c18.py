"""C18 - batched changes rewrite each table once.

(a) E3: z3 over the mergeable_ops table re-extracted with `ast` from db/common.py (run from
    checks/c18.py, not a CrossHair harness).
(b) E1: generate_table_ops_sql / generate_table_op_sql / _are_ops_mergeable with recording op
    builders and a symbolic op-type sequence: all ops of a maximal run of
    {add_column, change_column, delete_column, change_meta} share one AlterTableSQLResult
    (= one table rebuild on SQLite).
"""
from vlib import boot  # noqa
from vlib import hx

from django_evolution.db import EvolutionOperationsMulti

OP_TYPES = ['add_column', 'change_column', 'delete_column', 'change_meta',
            'change_column_type', 'sql']
REQUIRED_MERGEABLE = ('add_column', 'change_column', 'delete_column', 'change_meta')


class _RecResult(object):
    """Stand-in for AlterTableSQLResult: records which ops were added to it."""
    made = []

    def __init__(self, evolver, model, *a, **kw):
        self.tags = []
        _RecResult.made.append(self)

    def add(self, tag):
        self.tags.append(tag)

    def to_sql(self):
        return [('RESULT', tuple(self.tags))]


class _Mutator(object):
    def __init__(self):
        self.finished = []

    def create_model(self):
        return object()

    def finish_op(self, op):
        self.finished.append(op['i'])


class _F(object):
    name = 'f'


def _evolver():
    ev = EvolutionOperationsMulti('default').get_evolver()
    ev.alter_table_sql_result_cls = _RecResult
    ev.add_column = lambda model, field, initial: ('add_column',)
    ev.change_column_attrs = lambda model, mutation, name, attrs: ('change_column',)
    ev.change_column_type = lambda **kw: ('change_column_type',)
    ev.delete_column = lambda model, field: ('delete_column',)
    ev.change_meta_x = lambda model, old, new: ('change_meta',)
    return ev


def _op(i, t):
    return {'i': i, 'type': OP_TYPES[t], 'mutation': None, 'field': _F(), 'initial': None,
            'new_attrs': {}, 'old_field': None, 'new_field': None, 'prop_name': 'x',
            'old_value': None, 'new_value': None, 'sql': ('sql',)}


def h_grouping(n: int, t0: int, t1: int, t2: int, t3: int) -> bool:
    """
    pre: 1 <= n <= 4 and 0 <= t0 <= 5 and 0 <= t1 <= 5 and 0 <= t2 <= 5 and 0 <= t3 <= 5
    pre: hx.in_part(t0)
    pre: not hx.excluded(n, t0, t1, t2, t3)
    pre: not hx.kf('c18_mergeable_ops_comma')
    post: _
    """
    types = [t0, t1, t2, t3][:n]
    ev = _evolver()
    mut = _Mutator()
    _RecResult.made = []
    ops = [_op(i, t) for i, t in enumerate(types)]
    sql = ev.generate_table_ops_sql(mut, ops)
    groups = [list(tags) for (_r, tags) in sql]
    # reference grouping: maximal runs of required-mergeable op types; everything else alone
    exp = []
    for t in types:
        name = OP_TYPES[t]
        tag = (name,) if name != 'sql' else ('sql',)
        if exp and name in REQUIRED_MERGEABLE and exp[-1][1]:
            exp[-1][0].append(tag)
        else:
            exp.append([[tag], name in REQUIRED_MERGEABLE])
    ok = groups == [g for g, _m in exp]
    ok = ok and mut.finished == list(range(n))        # every op finished once, in order
    ok = ok and len(_RecResult.made) == len(groups)
    return hx.verdict(ok, n >= 2)
