"""C18 - batched changes rewrite each table once.

(a) E3: z3 over the mergeable_ops table re-extracted with `ast` from db/common.py (run from
    checks/c18.py, not a CrossHair harness).
(b) E1: generate_table_ops_sql / generate_table_op_sql / _are_ops_mergeable with recording op
    builders and a symbolic op-type sequence: all ops of a maximal run of
    {add_column, change_column, delete_column, change_meta} share one AlterTableSQLResult
    (= one table rebuild on SQLite).
"""
from vlib import boot  # noqa
from vlib import hx

from django_evolution.db import EvolutionOperationsMulti

OP_TYPES = ['add_column', 'change_column', 'delete_column', 'change_meta',
            'change_column_type', 'sql']
REQUIRED_MERGEABLE = ('add_column', 'change_column', 'delete_column', 'change_meta')


class _RecResult(object):
    """Stand-in for AlterTableSQLResult: records which ops were added to it."""
    made = []

    def __init__(self, evolver, model, *a, **kw):
        self.tags = []
        _RecResult.made.append(self)

    def add(self, tag):
        self.tags.append(tag)

    def to_sql(self):
        return [('RESULT', tuple(self.tags))]


class _Mutator(object):
    def __init__(self):
        self.finished = []

    def create_model(self):
        return object()

    def finish_op(self, op):
        self.finished.append(op['i'])


class _F(object):
    name = 'f'


def _evolver():
    ev = EvolutionOperationsMulti('default').get_evolver()
    ev.alter_table_sql_result_cls = _RecResult
    ev.add_column = lambda model, field, initial: ('add_column',)
    ev.change_column_attrs = lambda model, mutation, name, attrs: ('change_column',)
    ev.change_column_type = lambda **kw: ('change_column_type',)
    ev.delete_column = lambda model, field: ('delete_column',)
    ev.change_meta_x = lambda model, old, new: ('change_meta',)
    return ev


def _op(i, t):
    return {'i': i, 'type': OP_TYPES[t], 'mutation': None, 'field': _F(), 'initial': None,
            'new_attrs': {}, 'old_field': None, 'new_field': None, 'prop_name': 'x',
            'old_value': None, 'new_value': None, 'sql': ('sql',)}


def h_grouping(n: int, t0: int, t1: int, t2: int, t3: int, t4: int) -> bool:
    """
    pre: 1 <= n <= hx.bound(4, 5) and 0 <= t0 <= 5 and 0 <= t1 <= 5 and 0 <= t2 <= 5 and 0 <= t3 <= 5
    pre: 0 <= t4 <= (5 if hx.THOROUGH else 0)
    pre: hx.in_part(t0, t1)
    pre: not hx.excluded(n, t0, t1, t2, t3, t4)
    pre: not hx.kf('c18_mergeable_ops_comma')
    post: _
    """
    types = [t0, t1, t2, t3, t4][:n]
    ev = _evolver()
    mut = _Mutator()
    _RecResult.made = []
    ops = [_op(i, t) for i, t in enumerate(types)]
    sql = ev.generate_table_ops_sql(mut, ops)
    groups = [list(tags) for (_r, tags) in sql]
    # reference grouping: maximal runs of required-mergeable op types; everything else alone
    exp = []
    for t in types:
        name = OP_TYPES[t]
        tag = (name,) if name != 'sql' else ('sql',)
        if exp and name in REQUIRED_MERGEABLE and exp[-1][1]:
            exp[-1][0].append(tag)
        else:
            exp.append([[tag], name in REQUIRED_MERGEABLE])
    ok = groups == [g for g, _m in exp]
    ok = ok and mut.finished == list(range(n))        # every op finished once, in order
    ok = ok and len(_RecResult.made) == len(groups)
    return hx.verdict(ok, n >= 2)


# ---------------------------------------------------------------------------------------
# (c) real AppMutator / ModelMutator / SQLite evolver: one rebuild per model for any sequence of
#     mergeable mutations (adds, deletes, attribute changes, Meta changes), however interleaved

from django.db import models as _models

from django_evolution.db.state import DatabaseState
from django_evolution.mutations import AddField, ChangeField, ChangeMeta, DeleteField
from django_evolution.mutators import AppMutator
from django_evolution.signature import (AppSignature, FieldSignature, ModelSignature,
                                        ProjectSignature)
from django_evolution.utils.sql import SQLExecutor

M_NAMES = ['A', 'B']


def _start_project():
    proj = ProjectSignature()
    app = AppSignature(app_id='app')
    proj.add_app_sig(app)
    for name in M_NAMES:
        ms = ModelSignature(model_name=name, table_name='app_' + name.lower(), pk_column='id',
                            unique_together_applied=True)
        ms.add_field_sig(FieldSignature('id', _models.AutoField, {'primary_key': True}))
        ms.add_field_sig(FieldSignature('f', _models.CharField, {'max_length': 20}))
        ms.add_field_sig(FieldSignature('g', _models.IntegerField, {'null': True}))
        ms.add_field_sig(FieldSignature('h', _models.IntegerField, {}))
        app.add_model_sig(ms)
    return proj


def _mergeable_mutation(kind, model, step):
    """kind 0 AddField, 1 ChangeField(max_length), 2 ChangeField(null=False, initial), 3 DeleteField,
    4 ChangeMeta(unique_together), 5 ChangeMeta(index_together). Each step uses its own field so
    that every sequence is valid."""
    if kind == 0:
        return AddField(model, 'new%d' % step, _models.IntegerField, initial=step)
    if kind == 1:
        return ChangeField(model, 'f', initial=None, max_length=30 + step)
    if kind == 2:
        return ChangeField(model, 'g', initial=step, null=False)
    if kind == 3:
        return DeleteField(model, 'h')
    if kind == 4:
        return ChangeMeta(model, 'unique_together', [('f', 'id')])
    return ChangeMeta(model, 'index_together', [('f', 'id')])


def h_one_rebuild(n: int, k0: int, m0: int, k1: int, m1: int, k2: int, m2: int) -> bool:
    """
    pre: 2 <= n <= 3 and 0 <= k0 <= 5 and 0 <= k1 <= 5 and 0 <= k2 <= 5
    pre: 0 <= m0 <= 1 and 0 <= m1 <= 1 and 0 <= m2 <= 1
    pre: hx.in_part(k0, k1)
    pre: not hx.excluded(n, k0, m0, k1, m1, k2, m2)
    post: _
    """
    steps = [(k0, m0), (k1, m1), (k2, m2)][:n]
    # each (kind, model) at most once: every kind touches a fixed field of its model
    seen = []
    for s in steps:
        key = (hx.realize(s[0]), hx.realize(s[1]))
        if key in seen:
            return hx.verdict(True, False)
        seen.append(key)
    muts = [_mergeable_mutation(k, hx.pick(M_NAMES, m), i) for i, (k, m) in enumerate(steps)]
    state = DatabaseState('default', scan=False)
    for name in M_NAMES:
        state.add_table('app_' + name.lower())
    am = AppMutator(app_label='app', project_sig=_start_project(), database_state=state,
                    database='default')
    am.run_mutations(muts)
    sql = am.to_sql()
    with hx.NoTracing():
        with SQLExecutor('default') as ex:
            flat = [s for (s, p, _t, _n) in ex._prepare_sql(sql)]
    ok = True
    rebuilds = {}
    for s in flat:
        if s.startswith('ALTER TABLE "TEMP_TABLE" RENAME TO '):
            t = s.split('RENAME TO ')[1].strip(' ;"')
            rebuilds[t] = rebuilds.get(t, 0) + 1
    for t, c in rebuilds.items():
        ok = ok and c <= 1
    return hx.verdict(ok, len(rebuilds) >= 1)
