"""C07 - a failed upgrade leaves the database as it was and can be retried.

The real SQLExecutor runs statement lists against the real in-memory SQLite database through
Django's cursor wrappers; an execute_wrapper raises OperationalError at the k-th executed
statement, k symbolic. Statement lists: hand-written shapes plus lists produced at import by the
real generators (table rebuild with index restore, M2M table creation, model creation +
deferred SQL).
"""
from vlib import boot  # noqa
from vlib import hx

from django.db import connection, connections, models
from django.db.utils import OperationalError

from django_evolution.utils.sql import SQLExecutor, NewTransactionSQL, NoTransactionSQL

SETUP = [
    'CREATE TABLE "base" ("id" integer PRIMARY KEY, "v" varchar(10) NULL);',
    'INSERT INTO "base" ("id", "v") VALUES (1, \'one\');',
    'INSERT INTO "base" ("id", "v") VALUES (2, NULL);',
    'CREATE INDEX "base_v" ON "base" ("v");',
]

# shape 0: plain DDL/DML mix; shape 1: a SQLite table rebuild as the evolver emits it;
# shape 2: strings, tuples with params, comments and blanks, nested lists
LISTS = [
    [
        'CREATE TABLE "t1" ("id" integer PRIMARY KEY, "a" varchar(10));',
        ('INSERT INTO "t1" ("id", "a") VALUES (%s, %s);', (1, 'x')),
        'CREATE TABLE "t2" ("id" integer PRIMARY KEY);',
        'CREATE INDEX "t1_a" ON "t1" ("a");',
        'DROP TABLE "t2";',
        ('UPDATE "base" SET "v" = %s WHERE "v" IS NULL;', ('filled',)),
    ],
    [
        'CREATE TABLE "TEMP_TABLE" ("id" integer PRIMARY KEY, "v" varchar(10) NOT NULL, "n" integer NULL);',
        ('INSERT INTO "TEMP_TABLE" ("id", "v", "n") SELECT "id", coalesce("v", %s), %s FROM "base";', ('dflt', 7)),
        'DROP TABLE "base";',
        'ALTER TABLE "TEMP_TABLE" RENAME TO "base";',
        'CREATE INDEX "base_v" ON "base" ("v");',
        'CREATE INDEX "base_n" ON "base" ("n");',
    ],
    [
        '-- a comment',
        ['CREATE TABLE "u1" ("id" integer PRIMARY KEY);', '   ',
         ('INSERT INTO "u1" ("id") VALUES (%s);', (5,))],
        'ALTER TABLE "base" ADD COLUMN "w" integer NULL;',
        ('UPDATE "base" SET "w" = %s;', (3,)),
        'DROP INDEX "base_v";',
    ],
]


def _gen_lists():
    """Statement lists produced by the real generators (run once, concretely, at import)."""
    out = []
    try:
        from vlib.dbprog import generated_statement_lists
        out = generated_statement_lists()
    except Exception:      # generator module not available yet
        out = []
    return out


GEN_LISTS = _gen_lists()


def _dump(alias='default'):
    conn = connections[alias]
    with conn.cursor() as c:
        c.execute("SELECT type, name, tbl_name, sql FROM sqlite_master "
                  "WHERE name NOT LIKE 'sqlite_%' AND name NOT LIKE 'django_%' "
                  "AND name NOT LIKE 'auth_%' ORDER BY name")
        schema = [tuple(r) for r in c.fetchall()]
        rows = []
        for (typ, name, tbl, sql) in schema:
            if typ == 'table':
                c.execute('SELECT * FROM "%s" ORDER BY 1' % name)
                rows.append((name, [tuple(r) for r in c.fetchall()]))
    return schema, rows


def _reset(setup, alias='default'):
    conn = connections[alias]
    if conn.in_atomic_block:
        raise AssertionError('harness: an atomic block leaked from a previous path')
    schema, _ = _dump(alias)
    with conn.cursor() as c:
        for (typ, name, tbl, sql) in schema:
            if typ == 'table':
                c.execute('DROP TABLE IF EXISTS "%s"' % name)
        for s in setup:
            if isinstance(s, tuple):
                c.execute(s[0], s[1])
            else:
                c.execute(s)


def _is_counted(sql):
    s = sql.lstrip().upper()
    return not s.startswith(('SELECT', 'PRAGMA', 'SAVEPOINT', 'RELEASE', 'ROLLBACK', 'BEGIN',
                             'COMMIT'))


def _run(stmts, k, alias='default', seen=None):
    """Run through the real SQLExecutor with a fault at counted statement k (k<0: none)."""
    conn = connections[alias]
    count = [0]

    def wrapper(execute, sql, params, many, context):
        if _is_counted(sql):
            i = count[0]
            count[0] += 1
            if seen is not None:
                seen.append((sql, params))
            if i == k:
                raise OperationalError('injected')
        return execute(sql, params, many, context)
    err = None
    try:
        with conn.execute_wrapper(wrapper):
            with SQLExecutor(alias) as ex:
                ex.run_sql(stmts, execute=True)
    except OperationalError as e:
        err = e
    return err, count[0]


def _flat(stmts):
    out = []
    for s in stmts:
        if isinstance(s, list):
            out += _flat(s)
        elif isinstance(s, tuple):
            if s[0].strip() and not s[0].strip().startswith('--'):
                out.append((s[0].strip(), s[1]))
        elif s.strip() and not s.strip().startswith('--'):
            out.append((s.strip(), None))
    return out


def _check(stmts, setup, k):
    flat = _flat(stmts)
    n = len(flat)
    # reference: uninterrupted run
    _reset(setup)
    err, _ = _run(stmts, -1)
    if err is not None:
        raise AssertionError('harness: fault-free run failed: %r' % (err,))
    final = _dump()
    # faulted run
    _reset(setup)
    before = _dump()
    err, _ = _run(stmts, k)
    if k >= n:
        return err is None and _dump() == final, False
    if err is None:
        return False, True
    after = _dump()
    ok = after == before                      # nothing of the evolution persists
    stmt, params = getattr(err, 'last_sql_statement', (None, None))
    ok = ok and stmt == flat[k][0]            # the error identifies the failing statement
    ok = ok and not connection.in_atomic_block
    # retry once the cause is removed
    err2, _ = _run(stmts, -1)
    ok = ok and err2 is None and _dump() == final
    return ok, True


def h_fault(shape: int, k: int) -> bool:
    """
    pre: 0 <= shape < len(LISTS) and 0 <= k <= 7
    pre: hx.in_part(shape)
    pre: not hx.excluded(shape, k)
    pre: not hx.kf('c07_exit_commits')
    post: _
    """
    ok, nontrivial = _check(LISTS[shape], SETUP, k)
    return hx.verdict(ok, nontrivial)


def h_fault_generated(idx: int, k: int) -> bool:
    """Same, on statement lists emitted by the real generators (with their own setup SQL).

    pre: 0 <= idx < len(GEN_LISTS) and 0 <= k <= 40
    pre: hx.in_part(idx)
    pre: not hx.excluded(idx, k)
    pre: not hx.kf('c07_exit_commits')
    post: _
    """
    name, setup, stmts = GEN_LISTS[idx]
    ok, nontrivial = _check(stmts, setup, k)
    return hx.verdict(ok, nontrivial)


GROUPED = [
    'CREATE TABLE "g1" ("id" integer PRIMARY KEY);',
    ('INSERT INTO "g1" ("id") VALUES (%s);', (1,)),
    NewTransactionSQL([
        'CREATE TABLE "g2" ("id" integer PRIMARY KEY);',
        ('INSERT INTO "g2" ("id") VALUES (%s);', (2,)),
    ]),
    NewTransactionSQL([
        'CREATE TABLE "g3" ("id" integer PRIMARY KEY);',
        'DROP TABLE "g1";',
    ]),
]
GROUP_BOUNDS = [0, 2, 4, 6]


def h_fault_grouped(k: int) -> bool:
    """Lists with explicit NewTransactionSQL groups are not all-or-nothing by construction; what is
    checked is group atomicity: after a fault the database equals the state at the last group
    boundary at or before k (never a partial group), and the error names statement k.

    pre: 0 <= k <= 6
    pre: not hx.excluded(k)
    pre: not hx.kf('c07_exit_commits')
    post: _
    """
    flat = [
        ('CREATE TABLE "g1" ("id" integer PRIMARY KEY);', None),
        ('INSERT INTO "g1" ("id") VALUES (%s);', (1,)),
        ('CREATE TABLE "g2" ("id" integer PRIMARY KEY);', None),
        ('INSERT INTO "g2" ("id") VALUES (%s);', (2,)),
        ('CREATE TABLE "g3" ("id" integer PRIMARY KEY);', None),
        ('DROP TABLE "g1";', None),
    ]
    boundary = max(b for b in GROUP_BOUNDS if b <= k)
    _reset(SETUP)
    with connection.cursor() as c:
        for s, p in flat[:boundary]:
            c.execute(s, p)
    expect = _dump()
    _reset(SETUP)
    err, _ = _run(GROUPED, k)
    if k >= len(flat):
        return hx.verdict(err is None, False)
    ok = err is not None and _dump() == expect
    ok = ok and getattr(err, 'last_sql_statement', (None,))[0] == flat[k][0]
    ok = ok and not connection.in_atomic_block
    return hx.verdict(ok, True)


def h_other_db(k: int) -> bool:
    """The transaction must be opened on the database the executor was created for.

    pre: 0 <= k <= 6
    pre: not hx.excluded(k)
    pre: not hx.kf('c07_exit_commits') and not hx.kf('c07_atomic_alias')
    post: _
    """
    stmts = LISTS[0]
    _reset(SETUP, 'other')
    err, _ = _run(stmts, -1, 'other')
    if err is not None:
        raise AssertionError('harness: fault-free run failed on other')
    final = _dump('other')
    _reset(SETUP, 'other')
    before = _dump('other')
    err, _ = _run(stmts, k, 'other')
    if k >= len(_flat(stmts)):
        return hx.verdict(err is None and _dump('other') == final, False)
    ok = err is not None and _dump('other') == before
    ok = ok and not connections['other'].in_atomic_block and not connection.in_atomic_block
    return hx.verdict(ok, True)


def h_two_calls(k: int) -> bool:
    """One executor block, two run_sql() calls (as execute_tasks does for model creation followed
    by evolution SQL in the same batch): a fault in the second call must also undo the first.

    pre: 0 <= k <= 6
    pre: not hx.excluded(k)
    pre: not hx.kf('c07_exit_commits') and not hx.kf('c07_run_sql_commits_previous_call')
    post: _
    """
    first = LISTS[0][:3]
    second = LISTS[0][3:]
    n = len(first) + len(second)
    conn = connection
    _reset(SETUP)
    before = _dump()
    count = [0]

    def wrapper(execute, sql, params, many, context):
        if _is_counted(sql):
            i = count[0]
            count[0] += 1
            if i == k:
                raise OperationalError('injected')
        return execute(sql, params, many, context)
    err = None
    try:
        with conn.execute_wrapper(wrapper):
            with SQLExecutor('default') as ex:
                ex.run_sql(first, execute=True)
                ex.run_sql(second, execute=True)
    except OperationalError as e:
        err = e
    if k >= n:
        return hx.verdict(err is None, False)
    ok = err is not None and _dump() == before and not conn.in_atomic_block
    return hx.verdict(ok, True)
