"""C14 - the SQL preview is exactly what an execution would run; output is deterministic.

(a) SQLExecutor.run_sql: for a statement list of symbolic shape the captured preview (minus the
    transaction comments) equals, in order, "statement % quoted params" of what execute=True
    hands to the cursor;
(b) the previewed text, run as plain SQL, stores the same values as the parametrised execution
    (parameter substitution is faithful) - real SQLite;
(c) change_meta_unique_together / change_meta_index_together with the builtin `set` replaced by a
    set whose iteration order is an arbitrary permutation (symbolic): the emitted statements do
    not depend on the order.
"""
import itertools

from vlib import boot  # noqa
from vlib import hx

from django.db import connection, models

import django_evolution.db.common as common
from django_evolution.db import EvolutionOperationsMulti
from django_evolution.db.state import DatabaseState
from django_evolution.mock_models import MockModel
from django_evolution.signature import (AppSignature, FieldSignature, ModelSignature,
                                        ProjectSignature)
from django_evolution.utils.sql import SQLExecutor, NewTransactionSQL

STRS = ['x', "it's", 'a"b', '100%', chr(92) + 'n', '']
INTS = [0, -1, 7, 2 ** 63 - 1]


class _Cursor(object):
    def __init__(self):
        self.calls = []

    def execute(self, sql, params=None):
        self.calls.append((sql, params))

    def close(self):
        pass


def _entry(kind, p):
    """One entry of a statement list. p: concrete parameter value."""
    if kind == 0:
        return 'CREATE TABLE "a" ("id" integer);'
    if kind == 1:
        return ('INSERT INTO "a" ("id") VALUES (%s);', (p,))
    if kind == 2:
        return '-- a comment'
    if kind == 3:
        return '   '
    if kind == 4:
        return ['DROP TABLE "b";', ('UPDATE "a" SET "id" = %s WHERE "id" = %s;', (p, 2))]
    if kind == 5:
        return NewTransactionSQL(['CREATE INDEX "i" ON "a" ("id");',
                                  ('DELETE FROM "a" WHERE "id" = %s;', (p,))])
    if kind == 6:
        return lambda cursor: ['ALTER TABLE "a" RENAME TO "c";', ('SELECT %s;', (p,))]
    return ('SELECT 1 WHERE %s = %s;', (p, p))


def h_preview_equals_execute(k0: int, k1: int, k2: int, n: int, pk: int, pi: int, ps: int,
                             pb: bool, k3: int) -> bool:
    """
    pre: 0 <= k0 <= 7 and 0 <= k1 <= 7 and 0 <= k2 <= 7 and 1 <= n <= hx.bound(3, 4)
    pre: 0 <= k3 <= (7 if hx.THOROUGH else 0)
    pre: 0 <= pk <= 2 and 0 <= ps <= 5 and 0 <= pi <= 3
    pre: (pk == 0 or pi == 0) and (pk == 1 or ps == 0) and (pk == 2 or not pb)
    pre: hx.in_part(k0, k1)
    pre: not hx.excluded(k0, k1, k2, n, pk, pi, ps, pb, k3)
    post: _
    """
    if pk == 0:
        p = hx.pick(INTS, pi)       # rendered into text, hence from a pool
    elif pk == 1:
        p = hx.pick(STRS, ps)
    else:
        p = True if pb else False
    sql = [_entry(k, p) for k in (k0, k1, k2, k3)[:n]]
    with SQLExecutor('default') as ex:
        preview = ex.run_sql(sql, capture=True, execute=False)
    rec = _Cursor()
    with SQLExecutor('default') as ex:
        real_cursor = ex._cursor
        ex._cursor = rec
        try:
            ex.run_sql(sql, execute=True)
        finally:
            ex._cursor = real_cursor
    qp = EvolutionOperationsMulti('default').get_evolver().quote_sql_param
    rendered = []
    for (stmt, params) in rec.calls:
        if params:
            rendered.append(stmt % tuple(qp(x) for x in params))
        else:
            rendered.append(stmt)
    shown = [s for s in preview if not (s.startswith('-- Start of a new transaction')
                                        or s.startswith('-- Run outside of a transaction'))]
    ok = len(shown) == len(rendered)
    if ok:
        for a, b in zip(shown, rendered):
            ok = ok and a == b
    return hx.verdict(ok, any(k in (1, 4, 5, 6, 7) for k in (k0, k1, k2, k3)[:n]))


def h_preview_values(ps: int, pk: int, pi: int) -> bool:
    """The previewed INSERT, executed as plain text, stores the value the parametrised one stores.

    pre: 0 <= ps <= 5 and 0 <= pk <= 1 and 0 <= pi <= 3 and (pk == 0 or pi == 0) and (pk == 1 or ps == 0)
    pre: not hx.excluded(ps, pk, pi)
    pre: not (hx.kf('c14_preview_quoting') and pk == 1 and ps == 1)
    post: _
    """
    p = hx.pick(STRS, ps) if pk else hx.pick(INTS, pi)
    sql = [('INSERT INTO "pv" ("v") VALUES (%s);', (p,))]
    with connection.cursor() as c:
        c.execute('DROP TABLE IF EXISTS "pv"')
        c.execute('CREATE TABLE "pv" ("v")')
    with SQLExecutor('default') as ex:
        preview = ex.run_sql(sql, capture=True, execute=True)
    ok = True
    try:
        with connection.cursor() as c:
            for text in preview:
                c.execute(hx.realize(text))
            c.execute('SELECT "v" FROM "pv"')
            rows = [r[0] for r in c.fetchall()]
    except Exception:
        rows = None
    finally:
        with connection.cursor() as c:
            c.execute('DROP TABLE IF EXISTS "pv"')
    ok = rows is not None and len(rows) == 2 and rows[0] == rows[1]
    return hx.verdict(ok, True)


class PermSet(object):
    """Stand-in for the builtin set with an arbitrary (externally chosen) iteration order."""
    perm = 0

    def __init__(self, items=()):
        self._items = []
        for i in items:
            if i not in self._items:
                self._items.append(i)

    def _ordered(self):
        perms = list(itertools.permutations(self._items))
        return list(perms[PermSet.perm % len(perms)]) if self._items else []

    def __iter__(self):
        return iter(self._ordered())

    def __contains__(self, x):
        return x in self._items

    def __len__(self):
        return len(self._items)

    def difference(self, other):
        return PermSet([i for i in self._items if i not in other])

    def __sub__(self, other):
        return self.difference(other)

    def union(self, other):
        return PermSet(list(self._items) + [i for i in other])

    def __or__(self, other):
        return self.union(other)

    def intersection(self, other):
        return PermSet([i for i in self._items if i in other])

    def __and__(self, other):
        return self.intersection(other)

    def symmetric_difference(self, other):
        return PermSet([i for i in self._items if i not in other] +
                       [i for i in other if i not in self._items])

    def __xor__(self, other):
        return self.symmetric_difference(other)

    def add(self, x):
        if x not in self._items:
            self._items.append(x)

    def update(self, other):
        for x in other:
            self.add(x)

    def discard(self, x):
        if x in self._items:
            self._items.remove(x)

    def remove(self, x):
        self._items.remove(x)

    def copy(self):
        return PermSet(self._items)

    def __bool__(self):
        return bool(self._items)

    def __eq__(self, other):
        try:
            return len(self) == len(other) and all(i in other for i in self._items)
        except TypeError:
            return NotImplemented

    __hash__ = None


TOGETHERS = [[], [('a', 'b')], [('a', 'b'), ('b', 'c')], [('b', 'c'), ('a', 'b'), ('a', 'c')],
             [('a', 'c')]]


INDEX_LISTS = [
    [],
    [{'name': 'i1', 'fields': ['a']}],
    [{'name': 'i1', 'fields': ['a']}, {'name': 'i2', 'fields': ['b']}],
    [{'name': 'i3', 'fields': ['c']}, {'name': 'i1', 'fields': ['a']}, {'name': 'i2', 'fields': ['a', 'b']}],
    [{'name': 'i4', 'fields': ['a', 'c']}, {'name': 'i5', 'fields': ['-b']}],
]


def _mock_model():
    proj = ProjectSignature()
    app = AppSignature(app_id='app')
    proj.add_app_sig(app)
    ms = ModelSignature(model_name='M', table_name='app_m', pk_column='id')
    ms.add_field_sig(FieldSignature('id', models.AutoField, {'primary_key': True}))
    for n in ('a', 'b', 'c'):
        ms.add_field_sig(FieldSignature(n, models.IntegerField, {}))
    app.add_model_sig(ms)
    return MockModel(project_sig=proj, app_name='app', model_name='M', model_sig=ms,
                     db_name='default')


def _meta_sql(func_name, old, new, perm):
    state = DatabaseState('default', scan=False)
    state.add_table('app_m')
    ev = EvolutionOperationsMulti('default', state).get_evolver()
    model = _mock_model()
    # indexes for the old value exist in the database state, as after a scan
    PermSet.perm = 0
    saved = common.__dict__.get('set')
    common.set = PermSet
    try:
        getattr(ev, func_name)(model, [], old)      # registers the old indexes in the state
        PermSet.perm = perm
        res = getattr(ev, func_name)(model, old, new)
    finally:
        if saved is None:
            del common.set
        else:
            common.set = saved
    return [str(s) for s in res.to_sql()]


def h_set_order(func: int, old_i: int, new_i: int, perm: int) -> bool:
    """
    pre: 0 <= func <= 2 and 0 <= old_i <= 4 and 0 <= new_i <= 4 and 0 <= perm <= 5
    pre: hx.in_part(func, old_i)
    pre: not hx.excluded(func, old_i, new_i, perm)
    pre: not hx.kf('c14_set_iteration_order')
    post: _
    """
    name = hx.pick(['change_meta_unique_together', 'change_meta_index_together',
                    'change_meta_indexes'], func)
    old = hx.pick(INDEX_LISTS if func == 2 else TOGETHERS, old_i)
    new = hx.pick(INDEX_LISTS if func == 2 else TOGETHERS, new_i)
    perm = hx.realize(perm)
    with hx.NoTracing():
        base = _meta_sql(name, old, new, 0)
    got = _meta_sql(name, old, new, perm)
    return hx.verdict(got == base, len(old) + len(new) >= 2)


# ------------------------------------------------------------------ preview must not disturb the execution state
from django_evolution.db.state import DatabaseState

_TABLES = ['t0', 't1']
_IDX = ['ix_a', 'ix_b', 'ix_c']
_COLS = [['a'], ['b'], ['a', 'b']]


def _dump_state(state):
    out = []
    for t in _TABLES:
        if state.has_table(t):
            out.append((t, sorted((ix.name, tuple(ix.columns), bool(ix.unique))
                                  for ix in state.iter_indexes(t))))
    return out


def h_state_clone(n0: int, u0: bool, n1: int, u1: bool, two_tables: bool,
                  op: int, ot: int, oi: int, ou: bool, side: bool) -> bool:
    """The preview SQL (EvolveAppTask.prepare) is generated against DatabaseState.clone(), the
    execution SQL afterwards against the original: an index added to / removed from / cleared on
    one of the two (unique or not), or a table added to it, must not show in the other one, and
    the clone starts out equal to the original.

    pre: 0 <= n0 <= 2 and 0 <= n1 <= 2 and 0 <= op <= 3 and 0 <= ot <= 1 and 0 <= oi <= 2
    pre: hx.in_part(op, ot, oi)
    pre: not hx.excluded(n0, u0, n1, u1, two_tables, op, ot, oi, ou, side)
    post: _
    """
    st = DatabaseState('default', scan=False)
    st.add_table('t0')
    if two_tables:
        st.add_table('t1')
    st.add_index('t0', hx.pick(_IDX, n0), hx.pick(_COLS, n0), unique=True if u0 else False)
    if n1 != n0 or u1 != u0:
        st.add_index('t0', hx.pick(_IDX, n1), hx.pick(_COLS, n1), unique=True if u1 else False)
    cl = st.clone()
    with hx.NoTracing():
        before = _dump_state(st)
        same_start = _dump_state(cl) == before
    if not same_start:
        return hx.verdict(False, True)
    touched, other = (cl, st) if side else (st, cl)
    table = hx.pick(_TABLES, ot)
    name = hx.pick(_IDX, oi)
    unique = True if ou else False
    if not touched.has_table(table):
        if op != 3:
            return hx.verdict(True, False)
        touched.add_table(table)
    elif op == 0:
        if touched.get_index(table, name, unique=unique):
            return hx.verdict(True, False)
        touched.add_index(table, name, hx.pick(_COLS, oi), unique=unique)
    elif op == 1:
        if not touched.get_index(table, name, unique=unique):
            return hx.verdict(True, False)
        touched.remove_index(table, name, unique=unique)
    elif op == 2:
        touched.clear_indexes(table)
    else:
        return hx.verdict(True, False)
    with hx.NoTracing():
        ok = _dump_state(other) == before
        changed = _dump_state(touched) != before
    return hx.verdict(ok, changed)
