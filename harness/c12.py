"""C12 - upgrades that cannot reach the current models never touch the database.

(a) the gate in the real `evolve` management command (handle/_add_tasks/_check_simulation/
    _perform_evolution) with a stub Evolver whose observable answers are symbolic;
(b) rejection totality of simulate(): a valid evolution perturbed by a symbolic choice is either
    rejected with SimulationFailure (mandatory for the five named error classes) or leaves a
    non-empty residual Diff whenever the reference says the target is not reached.
"""
import io
import importlib

from vlib import boot  # noqa
from vlib import hx

from django.core.management.base import CommandError
from django.db import models

from django_evolution.diff import Diff
from django_evolution.errors import EvolutionException, SimulationFailure
from django_evolution.mutations import AddField, ChangeField, DeleteField, DeleteModel
from django_evolution.signature import (AppSignature, FieldSignature, ModelSignature,
                                        ProjectSignature)

evolve_mod = importlib.import_module('django_evolution.management.commands.evolve')


def _run_gate(diff_obj, can_sim, required, execute, purge, hint, sql, evolve_raises, verbosity):
    """The real evolve command with a stub Evolver. -> (calls, raised)"""
    calls = []

    class FakeEvolver(object):
        def __init__(self, **kw):
            self.hinted = kw.get('hinted')
            self.database_name = 'default'
            self.installed_new_database = False
            self.tasks = []
            self.verbosity = kw.get('verbosity')

        def queue_evolve_all_apps(self):
            calls.append('queue_all')

        def queue_purge_old_apps(self):
            calls.append('queue_purge')

        def can_simulate(self):
            return can_sim

        def diff_evolutions(self):
            return diff_obj

        def get_evolution_required(self):
            return required

        def evolve(self):
            calls.append('evolve')
            if evolve_raises:
                raise EvolutionException('boom')

        def iter_evolution_content(self):
            return []

    old = evolve_mod.Evolver
    evolve_mod.Evolver = FakeEvolver
    raised = False
    try:
        cmd = evolve_mod.Command(stdout=io.StringIO(), stderr=io.StringIO())
        try:
            cmd.handle(purge=purge, verbosity=verbosity, hint=hint, compile_sql=sql,
                       database=None, execute=execute, interactive=False,
                       write_evolution_name=None)
        except CommandError:
            raised = True
    finally:
        evolve_mod.Evolver = old
    return calls, raised


def _gate_verdict(calls, raised, residual_empty, can_sim, required, execute, purge, evolve_raises):
    ok = True
    if 'evolve' in calls:
        # executed => asked to, needed, and the simulated result is exactly the target
        ok = ok and execute and required and (residual_empty or not can_sim)
        ok = ok and calls.count('evolve') == 1
    if can_sim and not residual_empty:
        # unreachable target: must be an error, nothing executed
        ok = ok and raised and 'evolve' not in calls
    if execute and required and (residual_empty or not can_sim):
        ok = ok and 'evolve' in calls          # liveness of the gate: a reachable target is executed
    if evolve_raises and 'evolve' in calls:
        ok = ok and raised                     # a failing run is reported as a command error
    ok = ok and (('queue_purge' in calls) == purge)
    return ok


def h_gate(can_sim: bool, diff_empty: bool, diff_empty_apps: bool, required: bool,
           execute: bool, purge: bool, hint: bool, sql: bool, evolve_raises: bool,
           verbosity: int) -> bool:
    """
    pre: 0 <= verbosity <= 3
    pre: diff_empty or not diff_empty_apps
    pre: not hx.excluded(can_sim, diff_empty, diff_empty_apps, required, execute, purge, hint, sql, evolve_raises, verbosity)
    post: _
    """
    # a real Diff object with the requested emptiness: nothing left / only a removed app left /
    # a field difference left (so the gate may read a Diff any way it likes)
    kind = 0 if diff_empty_apps else (6 if diff_empty else 1)
    sim, target = _residual(kind)
    diff_obj = Diff(sim, target)
    if not (bool(diff_obj.is_empty(True)) == diff_empty and bool(diff_obj.is_empty(False)) == diff_empty_apps):
        raise AssertionError('harness: residual kind does not give the requested Diff')
    calls, raised = _run_gate(diff_obj, can_sim, required, execute,
                              purge, hint, sql, evolve_raises, verbosity)
    residual_empty = diff_empty_apps if purge else diff_empty
    return hx.verdict(_gate_verdict(calls, raised, residual_empty, can_sim, required, execute,
                                    purge, evolve_raises), True)


def _residual(kind):
    """(simulated signature, target signature) whose difference is of one kind.
    0 none  1 field attribute differs  2 field left over in the simulated signature
    3 field missing from the simulated signature  4 Meta (unique_together) differs
    5 a model left over in the simulated signature (e.g. a dropped DeleteModel)
    6 a whole app left over in the simulated signature (only matters with --purge)
    7 kinds 5 and 6 together  8 kinds 1 and 6 together"""
    sim, target = _base(), _base()
    m = sim.get_app_sig('app').get_model_sig('M')
    if kind in (1, 8):
        m.get_field_sig('a').field_attrs['max_length'] = 21
    if kind == 2:
        m.add_field_sig(FieldSignature('extra', models.IntegerField, {'null': True}))
    if kind == 3:
        m.remove_field_sig('b')
    if kind == 4:
        m.unique_together = [('a', 'b')]
    if kind in (5, 7):
        target.get_app_sig('app').remove_model_sig('N')
    if kind in (6, 7, 8):
        old = AppSignature(app_id='oldapp')
        old.add_model_sig(ModelSignature(model_name='O', table_name='oldapp_o', pk_column='id'))
        sim.add_app_sig(old)
    return sim, target


def h_gate_real_diff(kind: int, required: bool, execute: bool, purge: bool, hint: bool,
                     sql: bool) -> bool:
    """The same gate with a real Diff(simulated, target) whose residual difference is of a
    symbolic kind.

    pre: 0 <= kind <= 8
    pre: not hx.excluded(kind, required, execute, purge, hint, sql)
    post: _
    """
    sim, target = _residual(hx.realize(kind))
    diff_obj = Diff(sim, target)
    calls, raised = _run_gate(diff_obj, True, required, execute, purge, hint, sql, False, 1)
    residual_empty = kind == 0 or (kind == 6 and not purge)
    return hx.verdict(_gate_verdict(calls, raised, residual_empty, True, required, execute,
                                    purge, False), kind != 0)


# ---------------------------------------------------------------------------------------
# (b) rejection totality
APPS = ['app', 'ap', 'apps', 'other']           # 'app' exists; the others do not
MODEL_NAMES = ['M', 'm', 'MM', 'N', 'M ']       # 'M' and 'N' exist
FIELD_NAMES = ['a', 'b', 'id', 'A', 'ab', 'c', 'zz']   # a, b, id exist on M; c on N


def _base():
    proj = ProjectSignature()
    app = AppSignature(app_id='app')
    proj.add_app_sig(app)
    m = ModelSignature(model_name='M', table_name='app_m', pk_column='id')
    m.add_field_sig(FieldSignature('id', models.AutoField, {'primary_key': True}))
    m.add_field_sig(FieldSignature('a', models.CharField, {'max_length': 20}))
    m.add_field_sig(FieldSignature('b', models.IntegerField, {'null': True}))
    app.add_model_sig(m)
    n = ModelSignature(model_name='N', table_name='app_n', pk_column='id')
    n.add_field_sig(FieldSignature('id', models.AutoField, {'primary_key': True}))
    n.add_field_sig(FieldSignature('c', models.IntegerField, {'null': True}))
    app.add_model_sig(n)
    # models whose primary key is a relation (multi-table-inheritance style link / FK as pk)
    for name, ftype in (('P', models.OneToOneField), ('R', models.ForeignKey)):
        p = ModelSignature(model_name=name, table_name='app_' + name.lower(), pk_column='parent_id')
        p.add_field_sig(FieldSignature('parent', ftype, {'primary_key': True}, related_model='app.M'))
        p.add_field_sig(FieldSignature('v', models.IntegerField, {'null': True}))
        app.add_model_sig(p)
    return proj


def _sim(proj, app_label, muts):
    for m in muts:
        m.run_simulation(app_label=app_label, project_sig=proj, database_state=None,
                         database='default')


def _valid(which, length, initial):
    if which == 0:
        return [AddField('M', 'zz', models.IntegerField, initial=initial)]
    if which == 1:
        return [ChangeField('M', 'a', initial=None, max_length=length)]
    if which == 2:
        return [DeleteField('M', 'b')]
    if which == 3:
        return [ChangeField('M', 'b', initial=initial, null=False)]
    if which == 4:
        return [AddField('M', 'zz', models.CharField, initial='x', max_length=length),
                DeleteField('M', 'b')]
    return [DeleteModel('N')]


def h_named_rejections(cls: int, which: int, ai: int, mi: int, fi: int,
                       length: int, initial: int) -> bool:
    """The five named error classes must raise SimulationFailure (nothing else, never succeed).

    cls 0 missing app, 1 missing model, 2 missing field (change/delete), 3 add existing field,
        4 delete primary key (AutoField id, OneToOneField / ForeignKey primary keys), 5 AddField non-null without initial, 6 ChangeField null=False without initial
    pre: 0 <= cls <= 6 and 0 <= which <= 4 and 1 <= ai <= 3 and 0 <= mi <= 4 and 0 <= fi <= 6
    pre: 1 <= length <= 255
    pre: hx.in_part(cls)
    pre: not hx.excluded(cls, which, ai, mi, fi, length, initial)
    post: _
    """
    proj = _base()
    app_label = 'app'
    nontrivial = True
    if cls == 0:
        app_label = APPS[ai]
        muts = _valid(which, length, initial)
    elif cls == 1:
        name = MODEL_NAMES[mi]
        if name in ('M', 'N'):
            return hx.verdict(True, False)
        muts = [[AddField(name, 'zz', models.IntegerField, initial=initial)],
                [ChangeField(name, 'a', initial=None, max_length=length)],
                [DeleteField(name, 'b')],
                [DeleteModel(name)],
                [ChangeField(name, 'b', initial=initial, null=False)]][hx.pick(range(5), which)]
    elif cls == 2:
        fname = FIELD_NAMES[fi]
        if fname in ('a', 'b', 'id'):
            return hx.verdict(True, False)
        muts = [[ChangeField('M', fname, initial=None, max_length=length)],
                [DeleteField('M', fname)],
                [ChangeField('M', fname, initial=initial, null=False)],
                [ChangeField('M', fname, initial=None, null=True)],
                [DeleteField('M', 'b'), DeleteField('M', 'b')]][hx.pick(range(5), which)]
    elif cls == 3:
        fname = FIELD_NAMES[fi]
        if fname not in ('a', 'b', 'id'):
            return hx.verdict(True, False)
        muts = [AddField('M', fname, hx.pick([models.IntegerField, models.CharField, models.BooleanField,
                                               models.IntegerField, models.IntegerField], which),
                         initial=initial, max_length=length)]
    elif cls == 4:
        mname, fname = hx.pick([('M', 'id'), ('N', 'id'), ('P', 'parent'), ('R', 'parent'), ('M', 'id')], which)
        muts = [DeleteField(mname, fname)]
    elif cls == 5:
        ft = hx.pick([models.IntegerField, models.CharField, models.BooleanField, models.DecimalField,
                      models.ForeignKey], which)
        attrs = {}
        if which == 4:
            attrs['related_model'] = 'app.N'
        if mi % 2:
            attrs['null'] = False       # stated explicitly
        muts = [AddField('M', 'zz', ft, **attrs)]
    else:
        # plain attribute change, and combined with a type change (same or different db type)
        ft = hx.pick([None, None, models.TextField, models.BigIntegerField, models.CharField], which)
        fname = hx.pick(['a', 'b', 'a', 'b', 'b'], which)
        kw = {'null': False}
        if which == 4:
            kw['max_length'] = length
        muts = [ChangeField('M', fname, field_type=ft, initial=None, **kw)]
    try:
        _sim(proj, app_label, muts)
    except SimulationFailure:
        return hx.verdict(True, nontrivial)
    return hx.verdict(False, nontrivial)


def h_perturbed_residual(which: int, pert: int, length: int, length2: int,
                         initial: int) -> bool:
    """A valid evolution reaches its target; a perturbed one is rejected or leaves a residual diff.

    pert 0 none, 1 drop first mutation, 2 duplicate first mutation, 3 retarget to model N,
         4 change the attribute value (length2), 5 reverse order
    pre: 0 <= which <= 5 and 0 <= pert <= 5 and 1 <= length <= 255 and 1 <= length2 <= 255
    pre: hx.in_part(which, pert)
    pre: not hx.excluded(which, pert, length, length2, initial)
    post: _
    """
    target = _base()
    _sim(target, 'app', _valid(which, length, initial))     # the current models
    muts = _valid(which, length, initial)
    reaches = True      # reference verdict: does the perturbed evolution yield the target?
    if pert == 1:
        muts = muts[1:]
        reaches = (which == 1 and length == 20)     # dropping a no-op change still reaches the target
    elif pert == 2:
        muts = [muts[0]] + muts
        reaches = which in (1, 3)          # ChangeField is idempotent; others are rejected
    elif pert == 3:
        if which == 5:
            return hx.verdict(True, False)
        for m in muts:
            m.model_name = 'N'
        reaches = False
    elif pert == 4:
        if which not in (1, 4):
            return hx.verdict(True, False)
        muts = _valid(which, length2, initial)
        reaches = (length2 == length)
    elif pert == 5:
        muts = list(reversed(muts))        # independent mutations: still fine
        reaches = True
    proj = _base()
    try:
        _sim(proj, 'app', muts)
    except SimulationFailure:
        return hx.verdict(pert != 0, True)
    d = Diff(proj, target)
    empty = d.is_empty(ignore_apps=False)
    d2 = Diff(target, proj)
    empty_back = d2.is_empty(ignore_apps=False)
    if reaches:
        return hx.verdict(empty and empty_back, True)
    # the target is not reached: the gate needs a non-empty residual diff
    return hx.verdict(not empty, True)
