"""C15 - purging and deleting remove exactly what was named, nothing else (signature + DROP set).

A project of two apps whose labels, table names and many-to-many table names are picked by
symbolic index from pools with prefix relations goes through the real PurgeAppTask.prepare /
DeleteApplication / DeleteModel code (AppMutator, ModelMutator, MockModel, SQLite evolver):
afterwards exactly the named app's (model's) entries are gone from the signature, every other
app serialises as before, and the emitted statements are exactly DROP TABLE of the named tables
and their auto-created many-to-many tables.
"""
from vlib import boot  # noqa
from vlib import hx

from django.db import models

from django_evolution.db.state import DatabaseState
from django_evolution.errors import MissingSignatureError
from django_evolution.evolve.purge_app_task import PurgeAppTask
from django_evolution.mutations import DeleteApplication, DeleteModel
from django_evolution.mutators import AppMutator
from django_evolution.signature import (AppSignature, FieldSignature, ModelSignature,
                                        ProjectSignature)
from django_evolution.utils.sql import SQLExecutor

LABELS = ['t', 'ta', 'tab']
CUSTOM = [None, 'ta_m', 't_m_rel', 'zz', 'zz_old']     # custom names collide with default names of others; one custom name is a prefix of another (model table vs many-to-many table, either way round)


def _model(name, table, fields):
    ms = ModelSignature(model_name=name, table_name=table, pk_column='id',
                        unique_together_applied=True)
    ms.add_field_sig(FieldSignature('id', models.AutoField, {'primary_key': True}))
    for f in fields:
        ms.add_field_sig(f)
    return ms


def _project(l0, l1, ct, cm2m, cross, n_first=False, two_m2m=False):
    """app0: M (table custom or default), N with ManyToMany 'rel' to M (table custom or default);
    app1: M (same model name, default table), P with an optional ForeignKey to app0.M."""
    a0, a1 = LABELS[l0], LABELS[l1]
    proj = ProjectSignature()
    app0, app1 = AppSignature(app_id=a0), AppSignature(app_id=a1)
    proj.add_app_sig(app0)
    proj.add_app_sig(app1)
    t_m0 = CUSTOM[ct] or '%s_m' % a0
    m2m_attrs = {}
    if CUSTOM[cm2m]:
        m2m_attrs['db_table'] = CUSTOM[cm2m]
    t_n0 = '%s_n' % a0
    sig_m = _model('M', t_m0, [FieldSignature('v', models.IntegerField, {})])
    n_fields = [FieldSignature('rel', models.ManyToManyField, m2m_attrs, related_model='%s.M' % a0)]
    if two_m2m:
        # a second many-to-many field, to a model of the other app, default table name
        n_fields.append(FieldSignature('rel2', models.ManyToManyField, {},
                                       related_model='%s.M' % a1))
    sig_n = _model('N', t_n0, n_fields)
    # n_first: the model holding the relation is defined before its target
    for ms in ((sig_n, sig_m) if n_first else (sig_m, sig_n)):
        app0.add_model_sig(ms)
    t_m1 = '%s_m' % a1
    app1.add_model_sig(_model('M', t_m1, [FieldSignature('v', models.IntegerField, {})]))
    pf = [FieldSignature('ref', models.ForeignKey, {}, related_model='%s.M' % a0)] if cross else []
    t_p1 = '%s_p' % a1
    app1.add_model_sig(_model('P', t_p1, pf))
    tables = {
        0: {'M': [t_m0], 'N': [CUSTOM[cm2m] or '%s_rel' % t_n0, t_n0] + (['%s_rel2' % t_n0] if two_m2m else [])},
        1: {'M': [t_m1], 'P': [t_p1]},
    }
    return proj, (a0, a1), tables


def _names_ok(l0, l1, ct, cm2m):
    if not (0 <= l0 <= 2 and 0 <= l1 <= 2 and l0 != l1 and 0 <= ct <= 4 and 0 <= cm2m <= 4):
        return False
    return True


def _distinct_tables(tables):
    flat = [t for app in tables.values() for ts in app.values() for t in ts]
    return len(set(flat)) == len(flat)


class _Evolver(object):
    def __init__(self, proj):
        self.project_sig = proj
        self.database_state = DatabaseState('default', scan=False)
        self.database_name = 'default'


def _flat(sql):
    with SQLExecutor('default') as ex:
        return [s for (s, p, _t, _n) in ex._prepare_sql(sql)]


def h_purge(l0: int, l1: int, ct: int, cm2m: int, cross: bool, which: int, n_first: bool,
            two_m2m: bool, gone: bool) -> bool:
    """PurgeAppTask.prepare for app `which`. With `gone`, the other app (which a relation of the
    purged app points into) has already been purged from the signature earlier in the same run:
    the purge is then either refused with MissingSignatureError (what the tree does, the same
    family as the known finding c15-purge-earlier-model) or must still be exact - it must never
    quietly drop less than the app owns while its signature entries disappear.

    pre: _names_ok(l0, l1, ct, cm2m) and 0 <= which <= 1
    pre: hx.in_part(l0, l1)
    pre: not hx.excluded(l0, l1, ct, cm2m, cross, which, n_first, two_m2m, gone)
    pre: not (hx.kf('c15_purge_relation_to_earlier_model') and which == 0 and not n_first)
    post: _
    """
    proj, labels, tables = _project(l0, l1, ct, cm2m, True if cross else False,
                                    True if n_first else False, True if two_m2m else False)
    if not _distinct_tables(tables):
        return hx.verdict(True, False)
    other = 1 - which
    before_other = proj.get_app_sig(labels[other]).serialize()
    if gone:
        if not ((which == 0 and two_m2m) or (which == 1 and cross)):
            return hx.verdict(True, False)
        proj.remove_app_sig(labels[other])
    ev = _Evolver(proj)
    task = PurgeAppTask(ev, labels[which])
    try:
        task.prepare()
    except MissingSignatureError:
        if gone:
            return hx.verdict(True, False)
        raise
    stmts = _flat(task.sql)
    want = sorted('DROP TABLE "%s";' % t for ts in tables[which].values() for t in ts)
    ok = sorted(stmts) == want
    ok = ok and task.evolution_required is True and task.new_evolutions == []
    app = proj.get_app_sig(labels[which])
    ok = ok and (app is None or app.is_empty())
    o = proj.get_app_sig(labels[other])
    if gone:
        ok = ok and o is None
    else:
        ok = ok and o is not None and o.serialize() == before_other
    return hx.verdict(ok, True)


def h_delete_model(l0: int, l1: int, ct: int, cm2m: int, cross: bool, app_i: int, mi: int,
                   two_m2m: bool) -> bool:
    """DeleteModel through AppMutator: only the named model (and its M2M tables) goes.

    pre: _names_ok(l0, l1, ct, cm2m) and 0 <= app_i <= 1 and 0 <= mi <= 1
    pre: hx.in_part(l0, l1)
    pre: not hx.excluded(l0, l1, ct, cm2m, cross, app_i, mi, two_m2m)
    post: _
    """
    proj, labels, tables = _project(l0, l1, ct, cm2m, True if cross else False, False,
                                    True if two_m2m else False)
    if not _distinct_tables(tables):
        return hx.verdict(True, False)
    names = sorted(tables[app_i])
    target = names[mi]
    before = dict((lab, proj.get_app_sig(lab).serialize()) for lab in labels)
    am = AppMutator(app_label=labels[app_i], project_sig=proj,
                    database_state=DatabaseState('default', scan=False), database='default')
    am.run_mutations([DeleteModel(target)])
    stmts = _flat(am.to_sql())
    want = sorted('DROP TABLE "%s";' % t for t in tables[app_i][target])
    ok = sorted(stmts) == want
    sig = am.project_sig
    app = sig.get_app_sig(labels[app_i])
    ok = ok and app.get_model_sig(target) is None
    left = [n for n in names if n != target]
    ok = ok and sorted(ms.model_name for ms in app.model_sigs) == left
    for n in left:
        ok = ok and app.get_model_sig(n).serialize() == before[labels[app_i]]['models'][n]
    ok = ok and sig.get_app_sig(labels[1 - app_i]).serialize() == before[labels[1 - app_i]]
    return hx.verdict(ok, True)


def h_delete_app_sim(l0: int, l1: int, ct: int, cm2m: int, cross: bool, which: int) -> bool:
    """DeleteApplication.simulate: exactly the named app's models leave the signature.

    pre: _names_ok(l0, l1, ct, cm2m) and 0 <= which <= 1
    pre: not hx.excluded(l0, l1, ct, cm2m, cross, which)
    post: _
    """
    proj, labels, tables = _project(l0, l1, ct, cm2m, True if cross else False)
    other = 1 - which
    before_other = proj.get_app_sig(labels[other]).serialize()
    DeleteApplication().run_simulation(app_label=labels[which], project_sig=proj,
                                       database_state=None, database='default')
    app = proj.get_app_sig(labels[which])
    ok = (app is None or app.is_empty())
    ok = ok and proj.get_app_sig(labels[other]).serialize() == before_other
    return hx.verdict(ok, True)


# ------------------------------------------------------------------ which apps count as stale
from django_evolution.diff import Diff

STORED_LABELS = ['shop', 'sho', 'shop2']      # prefixes of each other


def _simple_app(label, legacy=None, empty=False):
    app = AppSignature(app_id=label, legacy_app_label=legacy)
    if not empty:
        app.add_model_sig(_model('M', '%s_m' % (legacy or label),
                                 [FieldSignature('v', models.IntegerField, {})]))
    return app


def h_stale_apps(s0: int, s1: int, f0: int, f1: int, extra_new: bool, purge: bool) -> bool:
    """Which apps of the stored signature are stale (= what --purge removes, Diff.deleted /
    Evolver.queue_purge_old_apps): exactly those that are installed neither under their stored
    label nor under a new label whose legacy_app_label is the stored one. Without --purge the
    difference is ignored (Diff.is_empty(ignore_apps=True)).

    s0, s1: stored labels (index into a pool with prefix relations), f_i: fate of stored app i in
    the current project: 0 still installed, 1 installed under a new label with
    legacy_app_label = stored label, 2 gone, 3 gone while another app takes a label that merely
    starts with the stored one
    pre: 0 <= s0 <= 2 and 0 <= s1 <= 2 and s0 != s1 and 0 <= f0 <= 3 and 0 <= f1 <= 3
    pre: hx.in_part(f0, f1)
    pre: not hx.excluded(s0, s1, f0, f1, extra_new, purge)
    post: _
    """
    stored = ProjectSignature()
    target = ProjectSignature()
    labels = [hx.pick(STORED_LABELS, s0), hx.pick(STORED_LABELS, s1)]
    fates = [hx.realize(f0), hx.realize(f1)]
    used = set(labels)
    expect_deleted = []
    for i, (lab, fate) in enumerate(zip(labels, fates)):
        stored.add_app_sig(_simple_app(lab))
        if fate == 0:
            target.add_app_sig(_simple_app(lab))
        elif fate == 1:
            target.add_app_sig(_simple_app('renamed%d' % i, legacy=lab))
        else:
            expect_deleted.append(lab)
            if fate == 3:
                other = lab + '_x'
                if other not in used:
                    used.add(other)
                    target.add_app_sig(_simple_app(other))
    if extra_new:
        target.add_app_sig(_simple_app('brandnew'))
    d = Diff(stored, target)
    got = list(d.deleted)
    ok = sorted(got) == sorted(expect_deleted)
    for lab in got:
        ok = ok and list(d.deleted[lab]) == ['M']
    # without --purge removed apps never block or trigger anything (a label change is a
    # difference of its own: it needs a RenameAppLabel)
    renamed = 1 in fates
    ok = ok and bool(d.is_empty(ignore_apps=True)) == (not renamed)
    ok = ok and bool(d.is_empty(ignore_apps=False)) == (not expect_deleted and not renamed)
    if purge and ok:
        # purging the stale apps leaves exactly the others in the stored signature
        ev = _Evolver(stored)
        for lab in got:
            task = PurgeAppTask(ev, lab)
            task.prepare()
        left = sorted(a.app_id for a in stored.app_sigs if not a.is_empty())
        ok = left == sorted(l for l in labels if l not in expect_deleted)
    return hx.verdict(ok, bool(expect_deleted) or 1 in fates)
