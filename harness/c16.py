"""C16 - routing decision kernel: a model mutation is kept for database D iff its model is routed to D.

get_database_for_model_name (the router lookup) is replaced by a symbolic routing table.
"""
from vlib import boot  # noqa
from vlib import hx

from django.db import models

import django_evolution.mutations.base as mbase
from django_evolution.evolve.base import BaseEvolutionTask
from django_evolution.mutations import (AddField, ChangeField, ChangeMeta, DeleteApplication,
                                        DeleteField, DeleteModel, RenameField, RenameModel)
from django_evolution.signature import (AppSignature, FieldSignature, ModelSignature,
                                        ProjectSignature)

ALIASES = ['default', 'other']
MODELS = ['M0', 'M1', 'M2']


def _mutation(cls, model_name):
    return [
        lambda: AddField(model_name, 'f', models.IntegerField, initial=1),
        lambda: ChangeField(model_name, 'a', initial=None, max_length=5),
        lambda: DeleteField(model_name, 'a'),
        lambda: RenameField(model_name, 'a', 'b'),
        lambda: ChangeMeta(model_name, 'unique_together', [('a',)]),
        lambda: RenameModel(model_name, model_name + 'X', db_table='t'),
        lambda: DeleteModel(model_name),
    ][hx.pick(range(7), cls)]()


def _project():
    proj = ProjectSignature()
    app = AppSignature(app_id='app')
    proj.add_app_sig(app)
    for i, n in enumerate(MODELS):
        ms = ModelSignature(model_name=n, table_name='t%d' % i, pk_column='id')
        ms.add_field_sig(FieldSignature('id', models.AutoField, {'primary_key': True}))
        ms.add_field_sig(FieldSignature('a', models.CharField, {'max_length': 10}))
        app.add_model_sig(ms)
    return proj, app


class _Routing(object):
    def __init__(self, routes, chain=0):
        self.routes = routes
        self.tables = _chain(routes, chain)

    def __enter__(self):
        self.old = mbase.get_database_for_model_name
        routes = self.routes

        def lookup(app_name, model_name):
            return ALIASES[routes[MODELS.index(model_name)]]
        mbase.get_database_for_model_name = lookup
        return self

    def __exit__(self, *a):
        mbase.get_database_for_model_name = self.old
        return False


def _kf_region(routes, m, database):
    # known finding: a non-empty database argument short-circuits the router lookup
    return hx.kf('c16_database_arg_shortcut') and routes[m] != database


def h_is_mutable(cls: int, m: int, r0: int, r1: int, r2: int, database: int) -> bool:
    """BaseModelMutation.is_mutable for all seven model-mutation classes.

    pre: 0 <= cls <= 6 and 0 <= m <= 2 and 0 <= r0 <= 1 and 0 <= r1 <= 1 and 0 <= r2 <= 1
    pre: 0 <= database <= 1
    pre: not hx.excluded(cls, m, r0, r1, r2, database)
    pre: not _kf_region([r0, r1, r2], m, database)
    post: _
    """
    routes = [r0, r1, r2]
    proj, app = _project()
    mut = _mutation(cls, MODELS[m])
    with _Routing(routes):
        got = mut.is_mutable(app_label='app', project_sig=proj, database_state=None,
                             database=ALIASES[database])
    return hx.verdict(bool(got) == (routes[m] == database), True)


def h_task_filter(cls: int, m: int, r0: int, r1: int, r2: int, database: int) -> bool:
    """BaseEvolutionTask.is_mutation_mutable (what generate_mutations_info filters with).

    pre: 0 <= cls <= 6 and 0 <= m <= 2 and 0 <= r0 <= 1 and 0 <= r1 <= 1 and 0 <= r2 <= 1
    pre: 0 <= database <= 1
    pre: not hx.excluded(cls, m, r0, r1, r2, database)
    pre: not _kf_region([r0, r1, r2], m, database)
    post: _
    """
    routes = [r0, r1, r2]
    proj, app = _project()

    class Ev(object):
        project_sig = proj
        database_state = None
        database_name = ALIASES[database]
    task = BaseEvolutionTask('t', Ev())
    mut = _mutation(cls, MODELS[m])
    with _Routing(routes):
        got = task.is_mutation_mutable(mut, app_label='app')
    return hx.verdict(bool(got) == (routes[m] == database), True)


def h_delete_app(r0: int, r1: int, r2: int, database: int) -> bool:
    """DeleteApplication.simulate removes exactly the models routed to the evolved database.

    pre: 0 <= r0 <= 1 and 0 <= r1 <= 1 and 0 <= r2 <= 1 and 0 <= database <= 1
    pre: not hx.excluded(r0, r1, r2, database)
    pre: not (hx.kf('c16_database_arg_shortcut') and (r0 != database or r1 != database or r2 != database))
    post: _
    """
    routes = [r0, r1, r2]
    proj, app = _project()
    with _Routing(routes):
        DeleteApplication().run_simulation(app_label='app', project_sig=proj,
                                           database_state=None, database=ALIASES[database])
    left = [ms.model_name for ms in app.model_sigs]
    expect = [MODELS[i] for i in range(3) if routes[i] != database]
    return hx.verdict(left == expect, True)


# ------------------------------------------------------------------ what is created / recorded where
import django.db as _ddb
from django.apps.registry import Apps as _Apps

import django_evolution.compat.db as cdb
import django_evolution.signature as sigmod
from django_evolution.db.state import DatabaseState

_REG = _Apps()


def _class(i):
    meta = type('Meta', (), {'app_label': 'vapp16', 'apps': _REG, 'db_table': 't%d' % i})
    return type(str(MODELS[i]), (models.Model,),
                {'__module__': 'vapp16.models', 'a': models.CharField(max_length=10), 'Meta': meta})


CLASSES = [_class(i) for i in range(3)]


class _Router(object):
    """A database router driven by a routing table: 0 / 1 = the model lives on that alias only,
    2 = no opinion (Django then asks the next router; allowed everywhere if nobody objects),
    3 = refused on every alias."""

    def __init__(self, routes):
        self.routes = routes

    def allow_migrate(self, db, app_label, model_name=None, **hints):
        r = self.routes[[n.lower() for n in MODELS].index(model_name)]
        if r == 2:
            return None
        if r == 3:
            return False
        return ALIASES[r] == db


class _Env(object):
    """Real django.db.router with the table-driven router; app lookup helpers return the three
    model classes above (no installed app is needed)."""

    def __init__(self, routes, chain=0):
        self.routes = routes
        self.tables = _chain(routes, chain)

    def __enter__(self):
        self.saved = (cdb.get_models, cdb.get_app_label, sigmod.get_models, sigmod.get_app_label,
                      sigmod.get_legacy_app_label, sigmod.get_app_upgrade_info,
                      _ddb.router.__dict__.get('routers'))
        cdb.get_models = sigmod.get_models = lambda app, include_auto_created=False: list(CLASSES)
        cdb.get_app_label = sigmod.get_app_label = lambda app: 'vapp16'
        sigmod.get_legacy_app_label = lambda app: 'vapp16'
        sigmod.get_app_upgrade_info = lambda app, **kw: {'upgrade_method': None}
        _ddb.router.__dict__['routers'] = [_Router(t) for t in self.tables]
        return self

    def __exit__(self, *a):
        (cdb.get_models, cdb.get_app_label, sigmod.get_models, sigmod.get_app_label,
         sigmod.get_legacy_app_label, sigmod.get_app_upgrade_info, routers) = self.saved
        if routers is None:
            _ddb.router.__dict__.pop('routers', None)
        else:
            _ddb.router.__dict__['routers'] = routers
        return False


def _chain(routes, chain):
    """Router chains (settings.DATABASE_ROUTERS) built from one routing table:
    0 = one router; 1 / 2 = the opinions on models {0, 2} and on model {1} are held by two
    routers (either order) that have no opinion on the other models; 3 = a refuse-everything
    router after the real one; 4 = a no-opinion router before the real one."""
    routes = list(routes)
    even = [routes[i] if i != 1 else 2 for i in range(3)]
    odd = [routes[i] if i == 1 else 2 for i in range(3)]
    if chain == 1:
        return [even, odd]
    if chain == 2:
        return [odd, even]
    if chain == 3:
        return [routes, [3, 3, 3]]
    if chain == 4:
        return [[2, 2, 2], routes]
    return [routes]


def _allowed(routes, i, database, chain=0):
    """Django's documented router semantics: the first router with an opinion decides, and a
    model nobody has an opinion on is allowed."""
    for table in _chain(routes, chain):
        r = table[i]
        if r == 2:
            continue
        if r == 3:
            return False
        return r == database
    return True


def h_installable(r0: int, r1: int, r2: int, has0: bool, has1: bool, has2: bool,
                  database: int, chain: int) -> bool:
    """db_get_installable_models_for_app (what EvolveAppTask creates tables for): exactly the
    models the router allows on the evolved database whose table is not there yet.

    pre: 0 <= r0 <= 2 and 0 <= r1 <= 2 and 0 <= r2 <= 2 and 0 <= database <= 1 and 0 <= chain <= 4
    pre: not hx.excluded(r0, r1, r2, has0, has1, has2, database, chain)
    post: _
    """
    routes = [r0, r1, r2]
    has = [has0, has1, has2]
    state = DatabaseState(ALIASES[database], scan=False)
    for i in range(3):
        if has[i]:
            state.add_table('t%d' % i)
    with _Env(routes, chain):
        got = cdb.db_get_installable_models_for_app(None, state)
    expect = [CLASSES[i] for i in range(3) if not has[i] and _allowed(routes, i, database, chain)]
    ok = len(got) == len(expect)
    if ok:
        for a, b in zip(got, expect):
            ok = ok and a is b
    return hx.verdict(ok, True)


def h_from_app(r0: int, r1: int, r2: int, database: int, chain: int) -> bool:
    """AppSignature.from_app(app, database) (the signature recorded for a database) lists exactly
    the models the router allows on that database.

    pre: 0 <= r0 <= 2 and 0 <= r1 <= 2 and 0 <= r2 <= 2 and 0 <= database <= 1 and 0 <= chain <= 4
    pre: not hx.excluded(r0, r1, r2, database, chain)
    post: _
    """
    routes = [r0, r1, r2]
    with _Env(routes, chain):
        app_sig = AppSignature.from_app(None, ALIASES[database])
    got = [ms.model_name for ms in app_sig.model_sigs]
    expect = [MODELS[i] for i in range(3) if _allowed(routes, i, database, chain)]
    return hx.verdict(got == expect and app_sig.app_id == 'vapp16', True)


# ------------------------------------------------------------------ the evolver's baseline per database
from django.db import connections

from django_evolution.models import Evolution, Version


def _reset_db(alias, with_baseline):
    conn = connections[alias]
    existing = conn.introspection.table_names()
    with conn.schema_editor() as se:
        for m in (Evolution, Version):
            if m._meta.db_table in existing:
                se.delete_model(m)
        if with_baseline:
            se.create_model(Version)
            se.create_model(Evolution)
    if with_baseline:
        proj = ProjectSignature()
        proj.add_app_sig(AppSignature(app_id='marker_%s' % alias))
        Version(signature=proj).save(using=alias)


def _snapshot(alias):
    conn = connections[alias]
    tables = sorted(conn.introspection.table_names())
    rows = None
    if Version._meta.db_table in tables:
        rows = [(v.pk, [a.app_id for a in v.signature.app_sigs])
                for v in Version.objects.using(alias).order_by('pk')]
    return tables, rows


def h_evolver_baseline(database: int, has_d: bool, has_o: bool) -> bool:
    """Evolver(database_name=D) takes its baseline (stored signature) from D and, when D has none,
    installs one on D only; the other database is not read for it and not modified.

    pre: 0 <= database <= 1
    pre: not hx.excluded(database, has_d, has_o)
    post: _
    """
    database = hx.realize(database)
    has = [True if hx.realize(has_d) else False, True if hx.realize(has_o) else False]
    with hx.NoTracing():
        from django_evolution.evolve import Evolver
        for i in range(2):
            _reset_db(ALIASES[i], has[i])
        other = 1 - database
        before_other = _snapshot(ALIASES[other])
        ev = Evolver(database_name=ALIASES[database])
        apps_in_baseline = [a.app_id for a in ev.project_sig.app_sigs]
        if has[database]:
            ok = apps_in_baseline == ['marker_%s' % ALIASES[database]] and not ev.installed_new_database
        else:
            ok = apps_in_baseline == ['django_evolution'] and ev.installed_new_database
            tables, rows = _snapshot(ALIASES[database])
            ok = ok and rows is not None and len(rows) == 1 and rows[0][1] == ['django_evolution']
        ok = ok and _snapshot(ALIASES[other]) == before_other
        for i in range(2):
            _reset_db(ALIASES[i], False)
    return hx.verdict(ok, True)


# ------------------------------------------------------------------ applied / pending evolutions per database
import django_evolution.utils.evolutions as evoutil


def _reset_evolution_rows(alias, labels):
    conn = connections[alias]
    existing = conn.introspection.table_names()
    with conn.schema_editor() as se:
        for m in (Evolution, Version):
            if m._meta.db_table in existing:
                se.delete_model(m)
        se.create_model(Version)
        se.create_model(Evolution)
    v = Version(signature=ProjectSignature())
    v.save(using=alias)
    for lab in labels:
        Evolution(version=v, app_label='vapp16', label=lab).save(using=alias)
    # a same-named evolution of another app must not count
    Evolution(version=v, app_label='otherapp', label='e0').save(using=alias)


SEQUENCE = ['e0', 'e1', 'e2']


def h_unapplied(database: int, d0: bool, d1: bool, d2: bool, o0: bool, o1: bool, o2: bool) -> bool:
    """get_unapplied_evolutions / get_applied_evolutions(app, database): what counts as applied
    is what is recorded on *that* database (two real SQLite databases holding symbolic subsets of
    the app's three evolution labels).

    pre: 0 <= database <= 1
    pre: not hx.excluded(database, d0, d1, d2, o0, o1, o2)
    post: _
    """
    database = hx.realize(database)
    rec = [[bool(hx.realize(x)) for x in (d0, d1, d2)], [bool(hx.realize(x)) for x in (o0, o1, o2)]]
    with hx.NoTracing():
        for i in range(2):
            _reset_evolution_rows(ALIASES[i], [l for l, r in zip(SEQUENCE, rec[i]) if r])
        saved = (evoutil.get_evolution_sequence, evoutil.get_app_label)
        evoutil.get_evolution_sequence = lambda app: list(SEQUENCE)
        evoutil.get_app_label = lambda app: 'vapp16'
        try:
            pending = evoutil.get_unapplied_evolutions(None, ALIASES[database])
            applied = evoutil.get_applied_evolutions(None, ALIASES[database])
        finally:
            evoutil.get_evolution_sequence, evoutil.get_app_label = saved
            for i in range(2):
                _reset_db(ALIASES[i], False)
        want_pending = [l for l, r in zip(SEQUENCE, rec[database]) if not r]
        want_applied = [l for l, r in zip(SEQUENCE, rec[database]) if r]
        ok = list(pending) == want_pending and sorted(applied) == want_applied
    return hx.verdict(ok, rec[0] != rec[1])
