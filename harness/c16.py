"""C16 - routing decision kernel: a model mutation is kept for database D iff its model is routed to D.

get_database_for_model_name (the router lookup) is replaced by a symbolic routing table.
"""
from vlib import boot  # noqa
from vlib import hx

from django.db import models

import django_evolution.mutations.base as mbase
from django_evolution.evolve.base import BaseEvolutionTask
from django_evolution.mutations import (AddField, ChangeField, ChangeMeta, DeleteApplication,
                                        DeleteField, DeleteModel, RenameField, RenameModel)
from django_evolution.signature import (AppSignature, FieldSignature, ModelSignature,
                                        ProjectSignature)

ALIASES = ['default', 'other']
MODELS = ['M0', 'M1', 'M2']


def _mutation(cls, model_name):
    return [
        lambda: AddField(model_name, 'f', models.IntegerField, initial=1),
        lambda: ChangeField(model_name, 'a', initial=None, max_length=5),
        lambda: DeleteField(model_name, 'a'),
        lambda: RenameField(model_name, 'a', 'b'),
        lambda: ChangeMeta(model_name, 'unique_together', [('a',)]),
        lambda: RenameModel(model_name, model_name + 'X', db_table='t'),
        lambda: DeleteModel(model_name),
    ][hx.pick(range(7), cls)]()


def _project():
    proj = ProjectSignature()
    app = AppSignature(app_id='app')
    proj.add_app_sig(app)
    for i, n in enumerate(MODELS):
        ms = ModelSignature(model_name=n, table_name='t%d' % i, pk_column='id')
        ms.add_field_sig(FieldSignature('id', models.AutoField, {'primary_key': True}))
        ms.add_field_sig(FieldSignature('a', models.CharField, {'max_length': 10}))
        app.add_model_sig(ms)
    return proj, app


class _Routing(object):
    def __init__(self, routes):
        self.routes = routes

    def __enter__(self):
        self.old = mbase.get_database_for_model_name
        routes = self.routes

        def lookup(app_name, model_name):
            return ALIASES[routes[MODELS.index(model_name)]]
        mbase.get_database_for_model_name = lookup
        return self

    def __exit__(self, *a):
        mbase.get_database_for_model_name = self.old
        return False


def _kf_region(routes, m, database):
    # known finding: a non-empty database argument short-circuits the router lookup
    return hx.kf('c16_database_arg_shortcut') and routes[m] != database


def h_is_mutable(cls: int, m: int, r0: int, r1: int, r2: int, database: int) -> bool:
    """BaseModelMutation.is_mutable for all seven model-mutation classes.

    pre: 0 <= cls <= 6 and 0 <= m <= 2 and 0 <= r0 <= 1 and 0 <= r1 <= 1 and 0 <= r2 <= 1
    pre: 0 <= database <= 1
    pre: not hx.excluded(cls, m, r0, r1, r2, database)
    pre: not _kf_region([r0, r1, r2], m, database)
    post: _
    """
    routes = [r0, r1, r2]
    proj, app = _project()
    mut = _mutation(cls, MODELS[m])
    with _Routing(routes):
        got = mut.is_mutable(app_label='app', project_sig=proj, database_state=None,
                             database=ALIASES[database])
    return hx.verdict(bool(got) == (routes[m] == database), True)


def h_task_filter(cls: int, m: int, r0: int, r1: int, r2: int, database: int) -> bool:
    """BaseEvolutionTask.is_mutation_mutable (what generate_mutations_info filters with).

    pre: 0 <= cls <= 6 and 0 <= m <= 2 and 0 <= r0 <= 1 and 0 <= r1 <= 1 and 0 <= r2 <= 1
    pre: 0 <= database <= 1
    pre: not hx.excluded(cls, m, r0, r1, r2, database)
    pre: not _kf_region([r0, r1, r2], m, database)
    post: _
    """
    routes = [r0, r1, r2]
    proj, app = _project()

    class Ev(object):
        project_sig = proj
        database_state = None
        database_name = ALIASES[database]
    task = BaseEvolutionTask('t', Ev())
    mut = _mutation(cls, MODELS[m])
    with _Routing(routes):
        got = task.is_mutation_mutable(mut, app_label='app')
    return hx.verdict(bool(got) == (routes[m] == database), True)


def h_delete_app(r0: int, r1: int, r2: int, database: int) -> bool:
    """DeleteApplication.simulate removes exactly the models routed to the evolved database.

    pre: 0 <= r0 <= 1 and 0 <= r1 <= 1 and 0 <= r2 <= 1 and 0 <= database <= 1
    pre: not hx.excluded(r0, r1, r2, database)
    pre: not (hx.kf('c16_database_arg_shortcut') and (r0 != database or r1 != database or r2 != database))
    post: _
    """
    routes = [r0, r1, r2]
    proj, app = _project()
    with _Routing(routes):
        DeleteApplication().run_simulation(app_label='app', project_sig=proj,
                                           database_state=None, database=ALIASES[database])
    left = [ms.model_name for ms in app.model_sigs]
    expect = [MODELS[i] for i in range(3) if routes[i] != database]
    return hx.verdict(left == expect, True)
