"""C17 - lifecycle signals are paired and tell the truth (emission logic with stubbed work).

The work between signals (SQL execution, migration application, signature saving) is replaced by
stubs that may fail at a symbolic step; the signal-emitting code is the real code.
"""
from collections import OrderedDict

from vlib import boot  # noqa
from vlib import hx

import django_evolution.management as mgmt
import django_evolution.evolve.evolve_app_task as eat
from django_evolution import signals
from django_evolution.consts import UpgradeMethod
from django_evolution.errors import EvolutionExecutionError
from django_evolution.evolve import Evolver
from django_evolution.evolve.base import BaseEvolutionTask
from django_evolution.evolve.evolve_app_task import EvolveAppTask
from django_evolution.models import Evolution
from django_evolution.utils.migrations import MigrationExecutor

ALL_SIGNALS = ('evolving', 'evolved', 'evolving_failed', 'applying_evolution',
               'applied_evolution', 'applying_migration', 'applied_migration',
               'creating_models', 'created_models')


class _Recorder(object):
    """Connects a receiver to every public signal for one sender."""

    def __init__(self, sender, log):
        self.sender = sender
        self.log = log
        self.handlers = {}

    def __enter__(self):
        for name in ALL_SIGNALS:
            def h(_name=name, **kw):
                kw.pop('signal', None)
                kw.pop('sender', None)
                self.log.append((_name, kw))
            self.handlers[name] = h
            getattr(signals, name).connect(h, sender=self.sender, weak=False)
        return self

    def __exit__(self, *a):
        for name, h in self.handlers.items():
            getattr(signals, name).disconnect(h, sender=self.sender)
        return False


def _bare_evolver():
    ev = Evolver.__new__(Evolver)
    ev.database_name = 'default'
    ev.hinted = False
    ev.verbosity = 0
    ev.interactive = False
    ev.evolved = False
    ev.version = None
    ev.project_sig = None
    ev._tasks_by_class = OrderedDict()
    ev._tasks_by_id = OrderedDict()
    ev._tasks_prepared = False
    return ev


class _OtherError(Exception):
    """A failure that is not an EvolutionException (e.g. a raw database error from a migration)."""


def h_evolve(n_a: int, n_b: int, fail_at: int, save_fails: bool, second_call: bool,
             raw_error: bool) -> bool:
    """Evolver.evolve(): evolving once and first; then exactly one of evolved (iff normal return
    and the signature was saved) / evolving_failed; the process-wide lock returns to its start.

    pre: 0 <= n_a <= hx.bound(2, 3) and 0 <= n_b <= hx.bound(2, 3) and -1 <= fail_at <= hx.bound(4, 6)
    pre: not hx.excluded(n_a, n_b, fail_at, save_fails, second_call, raw_error)
    post: _
    """
    log = []
    counter = [0]
    exc_cls = _OtherError if raw_error else EvolutionExecutionError

    class TA(BaseEvolutionTask):
        def prepare(self, hinted=False, **kw):
            pass

        def execute(self, cursor=None, sql_executor=None, **kw):
            if counter[0] == fail_at:
                counter[0] += 1
                raise exc_cls('x')
            counter[0] += 1
            log.append(('exec', {'id': self.id}))

        @classmethod
        def execute_tasks(cls, evolver, tasks, **kw):
            for t in tasks:
                t.execute()

    class TB(TA):
        pass

    ev = _bare_evolver()

    class DS(object):
        def rescan_tables(self):
            log.append(('rescan', {}))
    ev.database_state = DS()

    def save(new_evolutions):
        if save_fails:
            raise EvolutionExecutionError('save')
        log.append(('saved', {'n': len(new_evolutions)}))
    ev._save_project_sig = save
    for i in range(n_a):
        ev.queue_task(TA('a%d' % i, ev))
    for i in range(n_b):
        ev.queue_task(TB('b%d' % i, ev))
    lock0 = mgmt._evolve_lock
    raised = False
    raised2 = False
    with _Recorder(ev, log):
        try:
            ev.evolve()
        except (EvolutionExecutionError, _OtherError):
            raised = True
        if second_call:
            try:
                ev.evolve()
            except Exception:
                raised2 = True
    lock_ok = mgmt._evolve_lock == lock0
    mgmt._evolve_lock = lock0
    names = [n for n, _ in log]
    sig = [n for n in names if n in ('evolving', 'evolved', 'evolving_failed')]
    expect_fail = (0 <= fail_at < n_a + n_b) or save_fails
    ok = (raised == expect_fail)
    if second_call and not raised:
        # a second evolve() on the same evolver must be refused without emitting anything
        ok = ok and raised2 and sig == ['evolving', 'evolved']
    elif second_call:
        # after a failed run: a retry on the same object is either refused silently or is a
        # full new paired run
        ok = ok and len(sig) % 2 == 0 and all(
            sig[i] == 'evolving' and sig[i + 1] in ('evolved', 'evolving_failed')
            for i in range(0, len(sig), 2))
    else:
        ok = ok and sig == ['evolving', 'evolving_failed' if raised else 'evolved']
    ok = ok and names[0] == 'evolving'                       # before any change
    if not second_call:
        ok = ok and (('saved' in names) == (not expect_fail))
    if not expect_fail and not second_call:
        ok = ok and names.index('saved') < names.index('evolved')
        ok = ok and names.count('exec') == n_a + n_b
    ok = ok and lock_ok
    if raised and not second_call:
        ok = ok and ev.evolved is False
    return hx.verdict(ok, True)


class _FakeExecutor(object):
    """sql_executor stub: run_sql() fails at the symbolic step."""

    def __init__(self, state, log):
        self.state = state
        self.log = log

    def __enter__(self):
        return self

    def __exit__(self, *a):
        return False

    def run_sql(self, sql, execute=False, capture=False, **kw):
        step = self.state['step']
        self.state['step'] += 1
        if step == self.state['fail_at']:
            e = Exception('boom')
            e.last_sql_statement = 'stmt'
            raise e
        self.log.append(('sql', {'sql': sql}))
        return list(sql)


def _task(ev, label, labels, new_model_names=()):
    t = EvolveAppTask.__new__(EvolveAppTask)
    t.id = 'evolve-app:%s' % label
    t.evolver = ev
    t.app_label = label
    t.app = None
    t.new_evolutions = [Evolution(app_label=label, label=l) for l in labels]
    t.new_model_names = list(new_model_names)
    t.new_models = []
    t.sql = ['-- %s' % label]
    t._new_models_sql = ['CREATE %s' % label] if new_model_names else []
    t._new_models_deferred_sql = []
    return t


def h_execute(has_sql: bool, fail: bool, explicit: bool, create_now: bool, has_models: bool,
              fail_create: bool) -> bool:
    """EvolveAppTask.execute(): applying_evolution is followed by applied_evolution with the same
    payload iff the SQL ran; a failure is re-raised as EvolutionExecutionError naming the statement.

    pre: not hx.excluded(has_sql, fail, explicit, create_now, has_models, fail_create)
    post: _
    """
    log = []
    ev = _bare_evolver()
    t = _task(ev, 'app1', ['e1', 'e2'], ['M'] if has_models else [])
    if not has_sql:
        t.sql = []
    state = {'step': 0, 'fail_at': -1}
    n_create = 1 if (create_now and has_models) else 0
    if fail_create and n_create:
        state['fail_at'] = 0
    elif fail and has_sql:
        state['fail_at'] = n_create
    ex = _FakeExecutor(state, log)
    evs = [Evolution(app_label='app1', label='e2')] if explicit else None
    err = None
    with _Recorder(ev, log):
        try:
            t.execute(sql_executor=ex, evolutions=evs, create_models_now=create_now)
        except EvolutionExecutionError as e:
            err = e
    names = [n for n, _ in log]
    ok = True
    exp = []
    will_fail = False
    if n_create:
        exp.append('creating_models')
        if fail_create:
            will_fail = True
        else:
            exp += ['sql', 'created_models']
    if not will_fail and has_sql:
        exp.append('applying_evolution')
        if fail:
            will_fail = True
        else:
            exp += ['sql', 'applied_evolution']
    ok = ok and ((err is not None) == will_fail)
    if err is not None:
        ok = ok and err.last_sql_statement == 'stmt'
    ok = ok and names == exp
    payloads = [kw for n, kw in log if n in ('applying_evolution', 'applied_evolution')]
    want = evs if explicit else t.new_evolutions
    for kw in payloads:
        ok = ok and kw['task'] is t and kw['evolutions'] is want
    for n, kw in log:
        if n in ('creating_models', 'created_models'):
            ok = ok and kw['app_label'] == 'app1' and kw['model_names'] == ['M']
    return hx.verdict(ok, True)


def h_create_models(n_tasks: int, fail: bool) -> bool:
    """EvolveAppTask._create_models(): one creating_models per task up front, one created_models
    per task (same payload, same order) iff the SQL ran.

    pre: 1 <= n_tasks <= hx.bound(3, 5)
    post: _
    """
    log = []
    ev = _bare_evolver()
    tasks = [_task(ev, 'app%d' % i, [], ['M%d' % i, 'N%d' % i]) for i in range(n_tasks)]
    state = {'step': 0, 'fail_at': 0 if fail else -1}
    err = None
    with _Recorder(ev, log):
        try:
            EvolveAppTask._create_models(sql_executor=_FakeExecutor(state, log), evolver=ev,
                                         tasks=tasks, sql=['CREATE'])
        except EvolutionExecutionError as e:
            err = e
    names = [n for n, _ in log]
    exp = ['creating_models'] * n_tasks
    if not fail:
        exp += ['sql'] + ['created_models'] * n_tasks
    ok = names == exp and ((err is not None) == fail)
    if err is not None:
        ok = ok and err.last_sql_statement == 'stmt'
        ok = ok and ((err.app_label == 'app0') if n_tasks == 1 else (err.app_label is None))
    creating = [kw for n, kw in log if n == 'creating_models']
    created = [kw for n, kw in log if n == 'created_models']
    for i, kw in enumerate(creating):
        ok = ok and kw['app_label'] == 'app%d' % i and kw['model_names'] == ['M%d' % i, 'N%d' % i]
    if not fail:
        ok = ok and creating == created
    return hx.verdict(ok, True)


class _Mig(object):
    def __init__(self, app_label, name):
        self.app_label = app_label
        self.name = name


def h_execute_tasks(b0: int, b1: int, b2: int, split: bool, fail_at: int) -> bool:
    """EvolveAppTask.execute_tasks() over a symbolic batch list.

    Batch kinds: 0 absent, 1 evolutions for task A, 2 evolutions for tasks A and B,
    3 model creation (task B) + evolutions for A, 4 migrations.
    With `split`, task A's two evolutions are spread over the first two evolution batches that
    mention A (as _build_batches does when another app's evolution must run in between).
    Signals must follow batch order; each applying_evolution carries exactly the evolutions of
    its batch; pairs are closed iff no failure happened in between.

    pre: 0 <= b0 <= 4 and 0 <= b1 <= 4 and 0 <= b2 <= 4 and -1 <= fail_at <= 6
    pre: b0 != 0 and not (b0 == 4 and b1 == 4) and not (b1 == 4 and b2 == 4) and (b1 != 0 or b2 == 0)
    pre: hx.in_part(b0, b1)
    pre: not hx.excluded(b0, b1, b2, split, fail_at)
    pre: not (hx.kf('c17_batch_payload') and split)
    post: _
    """
    log = []
    ev = _bare_evolver()
    ev.connection = None
    ta = _task(ev, 'appA', ['a1', 'a2'])
    tb = _task(ev, 'appB', ['b1'], ['BM'])
    kinds = [k for k in (b0, b1, b2) if k]
    a_batches = [i for i, k in enumerate(kinds) if k in (1, 2, 3)]
    state = {'step': 0, 'fail_at': fail_at}
    batches = []
    expected = []         # the expected signal/work trace for a fault-free run, with step marks
    a_seen = 0
    for i, k in enumerate(kinds):
        if k == 4:
            batches.append({'type': UpgradeMethod.MIGRATIONS,
                            'migration_targets': [('appM', 'm%d' % i)],
                            'migration_plan': [(_Mig('appM', 'm%d' % i), False)]})
            expected.append(('mig', i))
            continue
        info = {'type': UpgradeMethod.EVOLUTIONS}
        te = OrderedDict()
        if split and len(a_batches) >= 2:
            labels_a = ['a1'] if a_seen == 0 else (['a2'] if a_seen == 1 else [])
        else:
            labels_a = ['a1', 'a2'] if a_seen == 0 else []
        a_seen += 1
        if k == 3:
            info['new_models_sql'] = ['CREATE BM']
            info['new_models_deferred_sql'] = ['DEFERRED BM']
            info['new_models_tasks'] = [tb]
            expected.append(('create', tb))
        if labels_a:
            te[ta] = {'evolutions': labels_a, 'sql': ['ALTER A %s' % ','.join(labels_a)]}
            expected.append(('evo', ta, labels_a))
        if k == 2:
            te[tb] = {'evolutions': ['b1'], 'sql': ['ALTER B']}
            expected.append(('evo', tb, ['b1']))
        info['task_evolutions'] = te
        batches.append(info)
    if any(k == 3 for k in kinds):
        expected.append(('deferred',))
    migrating = any(k == 4 for k in kinds)

    class Loader(object):
        extra_applied_migrations = None

    class Exec(object):
        loader = Loader()
    mexec = MigrationExecutor.__new__(MigrationExecutor)
    mexec._signal_sender = ev
    mexec.loader = Loader()
    ev._evolve_app_task_state = {
        'batches': batches,
        'full_migration_plan': [] if migrating else None,
        'pre_migrate_state': None,
        'migration_executor': mexec,
    }
    ev.sql_executor = lambda **kw: _FakeExecutor(state, log)

    def fake_apply(executor, targets, plan, pre_migrate_state):
        for (m, _b) in plan:
            executor._on_progress('apply_start', m, False)
            step = state['step']
            state['step'] += 1
            if step == state['fail_at']:
                raise EvolutionExecutionError('migration failed')
            log.append(('migrated', {'name': m.name}))
            executor._on_progress('apply_success', m, False)
        return pre_migrate_state

    class FakeML(object):
        @staticmethod
        def from_database(conn):
            class L(object):
                def get_app_labels(self):
                    return []
            return L()
    saved = {}
    for name, val in (('apply_migrations', fake_apply),
                      ('emit_pre_migrate_or_sync', lambda **kw: log.append(('pre', {}))),
                      ('emit_post_migrate_or_sync', lambda **kw: log.append(('post', {}))),
                      ('finalize_migrations', lambda s: None),
                      ('record_applied_migrations', lambda **kw: None),
                      ('MigrationList', FakeML)):
        saved[name] = getattr(eat, name)
        setattr(eat, name, val)
    err = None
    try:
        with _Recorder(ev, log):
            try:
                EvolveAppTask.execute_tasks(evolver=ev, tasks=[ta, tb])
            except EvolutionExecutionError as e:
                err = e
    finally:
        for name, val in saved.items():
            setattr(eat, name, val)
    # expected trace
    exp = ['pre']
    step = 0
    failed = False
    payload_ok = True
    for item in expected:
        if item[0] == 'mig':
            exp.append('applying_migration')
            if step == fail_at:
                failed = True
                break
            exp += ['migrated', 'applied_migration']
            step += 1
        elif item[0] == 'create':
            exp.append('creating_models')
            if step == fail_at:
                failed = True
                break
            exp += ['sql', 'created_models']
            step += 1
        elif item[0] == 'evo':
            exp.append('applying_evolution')
            if step == fail_at:
                failed = True
                break
            exp += ['sql', 'applied_evolution']
            step += 1
        else:
            exp.insert(len(exp), 'post')
            if step == fail_at:
                failed = True
                break
            exp.append('sql')
            step += 1
    if not failed and 'post' not in exp:
        exp.append('post')
    names = [n for n, _ in log]
    ok = names == exp and ((err is not None) == failed)
    # payloads: the evolutions carried are exactly the batch's, for the right task
    evo_items = [it for it in expected if it[0] == 'evo']
    got = [kw for n, kw in log if n == 'applying_evolution']
    for it, kw in zip(evo_items, got):
        ok = ok and kw['task'] is it[1]
        ok = ok and [e.label for e in kw['evolutions']] == it[2]
    done = [kw for n, kw in log if n == 'applied_evolution']
    for a, b in zip(got, done):
        ok = ok and a['task'] is b['task'] and \
            [e.label for e in a['evolutions']] == [e.label for e in b['evolutions']]
    nontrivial = fail_at < len(expected) + 1
    return hx.verdict(ok, nontrivial)


def h_on_progress(a0: int, a1: int, a2: int, a3: int, fake1: bool, fake3: bool) -> bool:
    """MigrationExecutor._on_progress: apply_start/apply_success map to applying/applied_migration
    with the same migration; every other action emits nothing.

    pre: 0 <= a0 <= 4 and 0 <= a1 <= 4 and 0 <= a2 <= 4 and 0 <= a3 <= 4
    pre: hx.in_part(a0)
    post: _
    """
    ACTIONS = ['apply_start', 'apply_success', 'unapply_start', 'render_start', 'render_success']
    log = []
    ev = _bare_evolver()
    mexec = MigrationExecutor.__new__(MigrationExecutor)
    mexec._signal_sender = ev
    migs = [_Mig('app', 'm%d' % i) for i in range(4)]
    with _Recorder(ev, log):
        fakes = [False, True if fake1 else False, False, True if fake3 else False]
        for i, a in enumerate((a0, a1, a2, a3)):
            # Django calls progress_callback(action, migration, fake); soft-applied (fake-initial)
            # migrations report apply_success with fake=True
            mexec._on_progress(ACTIONS[a], migs[i], fakes[i])
    exp = []
    for i, a in enumerate((a0, a1, a2, a3)):
        if a == 0:
            exp.append(('applying_migration', migs[i]))
        elif a == 1:
            exp.append(('applied_migration', migs[i]))
    got = [(n, kw.get('migration')) for n, kw in log]
    ok = len(got) == len(exp) and all(g[0] == e[0] and g[1] is e[1] for g, e in zip(got, exp))
    return hx.verdict(ok, any(a in (0, 1) for a in (a0, a1, a2, a3)))
