"""C03 - optimising a mutation sequence never changes its outcome (signature level).

A sequence of L mutations is chosen symbolically (kind, model, field, new name per step; payload
values max_length / initial / null stay symbolic). Reference: apply one mutation at a time with
run_simulation(). Under test: AppMutator._preprocess_mutations (the optimiser: batches, rename
tracking, add/change/delete collapsing, regrouping by model). The optimised list must simulate
without failure to the same final signature, must leave the input mutation objects untouched, and
a second pass over the same objects (as EvolveAppTask.prepare then _build_batches do) must give
the same result again.
"""
from vlib import boot  # noqa
from vlib import hx

from django.db import models

from django_evolution.db.state import DatabaseState
from django_evolution.diff import Diff
from django_evolution.errors import SimulationFailure
from django_evolution.mutations import (AddField, ChangeField, ChangeMeta, DeleteField, DeleteModel,
                                        RenameField, RenameModel, SQLMutation)
from django_evolution.mutators import AppMutator
from django_evolution.signature import (AppSignature, FieldSignature, ModelSignature,
                                        ProjectSignature)

MODELS = ['A', 'B', 'C', 'D']     # A and B exist at the start, C and D are free names
FIELDS = ['f', 'g', 'h', 'i']     # f and g exist at the start on both models, h and i are free
N_KINDS = 9


def _start():
    proj = ProjectSignature()
    app = AppSignature(app_id='app')
    proj.add_app_sig(app)
    for i, name in enumerate(('A', 'B')):
        ms = ModelSignature(model_name=name, table_name='app_' + name.lower(), pk_column='id',
                            unique_together_applied=True)
        ms.add_field_sig(FieldSignature('id', models.AutoField, {'primary_key': True}))
        ms.add_field_sig(FieldSignature('f', models.CharField, {'max_length': 20}))
        ms.add_field_sig(FieldSignature('g', models.IntegerField, {'null': True}))
        app.add_model_sig(ms)
    return proj


def _noop_update(simulation):
    pass


def _mutation(kind, m, f, n, length, initial, flag):
    """kind 0 AddField  1 ChangeField(max_length)  2 ChangeField(null=False, initial)
    3 DeleteField  4 RenameField  5 ChangeMeta(unique_together)  6 RenameModel  7 DeleteModel
    8 SQLMutation barrier.   m: model index (A, B), f: field index (f, g), n: index of the new
    name (fields f, g, h / models A, B, C)."""
    model = hx.pick(MODELS, m)
    if kind == 0:
        return AddField(model, hx.pick(FIELDS, n), models.IntegerField, initial=initial,
                        null=True if flag else False)
    if kind == 1:
        return ChangeField(model, hx.pick(FIELDS, f), initial=None, max_length=length)
    if kind == 2:
        return ChangeField(model, hx.pick(FIELDS, f), initial=initial, null=False)
    if kind == 3:
        return DeleteField(model, hx.pick(FIELDS, f))
    if kind == 4:
        return RenameField(model, hx.pick(FIELDS, f), hx.pick(FIELDS, n))
    if kind == 5:
        return ChangeMeta(model, 'unique_together', [(hx.pick(FIELDS, f), 'id')] if flag else [])
    if kind == 6:
        return RenameModel(model, hx.pick(MODELS, n), db_table='app_t%d' % n)
    if kind == 7:
        return DeleteModel(model)
    return SQLMutation('tag%d' % m, ['-- nothing'], _noop_update)


def _valid_now(proj, kind, m, f, n):
    """Well-formedness the database would enforce: a rename/add never targets a name that exists
    at that point, a renamed model never takes a name in use, a unique_together names a field."""
    app = proj.get_app_sig('app')
    if kind == 8:
        return True
    ms = app.get_model_sig(MODELS[m])
    if ms is None:
        return True            # the real simulation rejects it; handled as invalid there
    if kind in (0, 4) and ms.get_field_sig(FIELDS[n]) is not None:
        return False
    if kind == 6 and app.get_model_sig(MODELS[n]) is not None:
        return False
    if kind == 5 and ms.get_field_sig(FIELDS[f]) is None:
        return False
    return True


def _simulate(proj, muts):
    for mu in muts:
        mu.run_simulation(app_label='app', project_sig=proj, database_state=None,
                          database='default')


def _same(a, b):
    """Same final project signature (the order of models inside an app is irrelevant)."""
    return (a == b and b == a and Diff(a, b).is_empty(False) and Diff(b, a).is_empty(False)
            and _canon(a.serialize()) == _canon(b.serialize()))


def _canon(x):
    if isinstance(x, dict):
        return sorted((k, _canon(v)) for k, v in x.items())
    if isinstance(x, (list, tuple)):
        return [_canon(i) for i in x]
    return repr(x)


def _optimise(muts):
    with hx.NoTracing():
        am = AppMutator(app_label='app', project_sig=_start(),
                        database_state=DatabaseState('default', scan=False), database='default')
    return am._preprocess_mutations(muts)           # traced


def _core(steps):
    """steps: list of (kind, m, f, n, length, initial, flag). -> (ok, nontrivial)

    Traced (code under test): the optimiser, AppMutator._preprocess_mutations. The reference
    run, the simulation of the optimised list and the comparisons operate on concrete data (all
    choices have been branched on) and run untraced."""
    steps = [tuple(hx.realize(x) for x in s) for s in steps]
    muts = [_mutation(*s) for s in steps]
    with hx.NoTracing():
        # distinct hint texts within a sequence (CrossHair models `set` by equality;
        # BaseMutation has a value __eq__ and an identity __hash__)
        hints = [str(x) for x in muts]
        if len(set(hints)) != len(hints):
            return True, False
        ref = _start()
        for s, mu in zip(steps, muts):
            if not _valid_now(ref, s[0], s[1], s[2], s[3]):
                return True, False
            try:
                _simulate(ref, [mu])
            except SimulationFailure:
                return True, False              # not valid one at a time: outside the property
        before = [str(x) for x in muts]
    try:
        opt = _optimise(muts)                   # traced
    except SimulationFailure:
        return False, True
    with hx.NoTracing():
        try:
            got = _start()
            _simulate(got, opt)
        except SimulationFailure:
            return False, True                  # (1) the optimised run must be accepted too
        ok = _same(got, ref)
        check_defs = not hx.kf('c03_optimiser_mutates_definitions')
        if check_defs:
            ok = ok and [str(x) for x in muts] == before        # (3) definitions untouched
    if check_defs:
        try:
            opt2 = _optimise(muts)                              # (4) same objects, second pass (traced)
        except SimulationFailure:
            return False, True
        with hx.NoTracing():
            try:
                got2 = _start()
                _simulate(got2, opt2)
                ok = ok and _same(got2, ref)
            except SimulationFailure:
                ok = False
    return ok, True


def _kf_region(steps):
    """Known-finding regions. steps: (kind, model index, field index, new-name index)."""
    if hx.kf('c03_rename_model_onto_freed_name'):
        # a RenameModel onto a model name that an earlier RenameModel/DeleteModel of the same
        # batch has just freed
        freed = []
        for (k, m, f, n) in steps:
            if k == 6:
                if MODELS[n] in freed:
                    return True
                freed.append(MODELS[m])
            elif k == 7:
                freed.append(MODELS[m])
    if hx.kf('c03_reused_field_name_deleted'):
        # RenameField(X -> Y) frees the name X; a later AddField(X) / RenameField(Z -> X) takes it
        # again; a DeleteField of X or Y after that is attributed to the wrong field
        for i, (k1, m1, f1, n1) in enumerate(steps):
            if k1 != 4:
                continue
            x, y = FIELDS[f1], FIELDS[n1]
            for j in range(i + 1, len(steps)):
                k2, m2, f2, n2 = steps[j]
                if k2 in (0, 4) and m2 == m1 and FIELDS[n2] == x:
                    for (k3, m3, f3, n3) in steps[j + 1:]:
                        if k3 == 3 and m3 == m1 and FIELDS[f3] in (x, y):
                            return True
    if hx.kf('c03_rename_collapsed_onto_freed_name'):
        # RenameField(X -> Y) at step i frees X; a later RenameField(Z -> X) whose field got the name
        # Z from an AddField / RenameField *before* step i is collapsed into that earlier mutation,
        # which then claims X while X is still in use
        for i, (k1, m1, f1, n1) in enumerate(steps):
            if k1 != 4:
                continue
            x = FIELDS[f1]
            for j in range(i + 1, len(steps)):
                k2, m2, f2, n2 = steps[j]
                if k2 == 4 and m2 == m1 and FIELDS[n2] == x:
                    z = FIELDS[f2]
                    for (k0, m0, f0, n0) in steps[:i]:
                        if k0 in (0, 4) and m0 == m1 and FIELDS[n0] == z:
                            return True
    return False


def _step_ok(k, m, f, n):
    """Ranges per kind; parameters a kind does not use are pinned to 0 (no duplicate paths)."""
    if not (0 <= k < N_KINDS and 0 <= m <= 1 and 0 <= f <= 1 and 0 <= n <= 3):
        return False
    if k in (0, 4) and n == 0:
        return False                       # new field names: g (in use at the start), h, i (free)
    if k in (0, 6):
        return f == 0
    if k in (1, 2, 3, 5):
        return n == 0
    if k in (7, 8):
        return f == 0 and n == 0
    return True


def h_seq2(k1: int, k2: int, m1: int, f1: int, n1: int, m2: int, f2: int, n2: int,
           flag: bool) -> bool:
    """
    pre: _step_ok(k1, m1, f1, n1) and _step_ok(k2, m2, f2, n2)
    pre: (not flag) or k1 in (0, 5) or k2 in (0, 5)
    pre: hx.in_part(k1, k2)
    pre: not hx.excluded(k1, k2, m1, f1, n1, m2, f2, n2, flag)
    pre: not _kf_region([(k1, m1, f1, n1), (k2, m2, f2, n2)])
    post: _
    """
    flag = True if flag else False
    ok, nt = _core([(k1, m1, f1, n1, 31, 7, flag), (k2, m2, f2, n2, 32, 8, flag)])
    return hx.verdict(ok, nt)


def h_seq3(k1: int, k2: int, k3: int, m1: int, f1: int, n1: int, m2: int, f2: int, n2: int,
           m3: int, f3: int, n3: int, flag: bool) -> bool:
    """
    pre: _step_ok(k1, m1, f1, n1) and _step_ok(k2, m2, f2, n2) and _step_ok(k3, m3, f3, n3)
    pre: (not flag) or k1 in (0, 5) or k2 in (0, 5) or k3 in (0, 5)
    pre: hx.in_part(k1, k2, k3)
    pre: not hx.excluded(k1, k2, k3, m1, f1, n1, m2, f2, n2, m3, f3, n3, flag)
    pre: not _kf_region([(k1, m1, f1, n1), (k2, m2, f2, n2), (k3, m3, f3, n3)])
    post: _
    """
    flag = True if flag else False
    ok, nt = _core([(k1, m1, f1, n1, 31, 7, flag), (k2, m2, f2, n2, 32, 8, flag),
                    (k3, m3, f3, n3, 33, 9, flag)])
    return hx.verdict(ok, nt)


FN = [(f, n) for f in range(2) for n in range(4)]      # (field index, new-name index) pairs


def _fn_ok(k, c):
    if not (0 <= c <= 7):
        return False
    f, n = c // 4, c % 4
    return _step_ok(k, 0, f, n)


def h_seq4(k1: int, k2: int, k3: int, k4: int, m: int, c1: int, c2: int, c3: int, c4: int) -> bool:
    """Sequences of four mutations on one model, for the kind patterns given by the partitions
    (name reuse: change / rename away / add again / change or delete). c_i encodes the field and
    the new-name index of step i.

    pre: 0 <= m <= 1 and _fn_ok(k1, c1) and _fn_ok(k2, c2) and _fn_ok(k3, c3) and _fn_ok(k4, c4)
    pre: hx.in_part(k1, k2, k3, k4)
    pre: not hx.excluded(k1, k2, k3, k4, m, c1, c2, c3, c4)
    post: _
    """
    steps = []
    for k, c, ln, ini in ((k1, c1, 31, 7), (k2, c2, 32, 8), (k3, c3, 33, 9), (k4, c4, 34, 10)):
        f, n = hx.pick(FN, c)
        steps.append((k, m, f, n, ln, ini, False))
    if _kf_region([(s[0], s[1], s[2], s[3]) for s in steps]):
        return hx.verdict(True, False)
    ok, nt = _core(steps)
    return hx.verdict(ok, nt)


FN_WIDE = [(f, n) for f in range(4) for n in range(4)]      # any of the four names as the field addressed


def _fn_wide_ok(k, c):
    """Like _step_ok, but a mutation may address any of the four field names (so that a field can
    be followed under the name an earlier rename or add of the same sequence gave it)."""
    if not (0 <= c <= 15):
        return False
    f, n = c // 4, c % 4
    if k in (0, 4) and n == 0:
        return False
    if k in (0, 6):
        return f == 0
    if k in (1, 2, 3, 5):
        return n == 0
    if k in (7, 8):
        return f == 0 and n == 0
    return True


def h_seq3_follow(k1: int, k2: int, k3: int, c1: int, c2: int, c3: int) -> bool:
    """Sequences of three mutations on one model in which later mutations may address a field by
    the name an earlier step gave it (rename chains followed by a change/delete/rename/
    unique_together, add followed by rename and change, ...).

    pre: _fn_wide_ok(k1, c1) and _fn_wide_ok(k2, c2) and _fn_wide_ok(k3, c3)
    pre: hx.in_part(k1, k2, k3)
    pre: not hx.excluded(k1, k2, k3, c1, c2, c3)
    post: _
    """
    steps = []
    for k, c, ln, ini in ((k1, c1, 31, 7), (k2, c2, 32, 8), (k3, c3, 33, 9)):
        f, n = hx.pick(FN_WIDE, c)
        steps.append((k, 0, f, n, ln, ini, True))
    if _kf_region([(s[0], s[1], s[2], s[3]) for s in steps]):
        return hx.verdict(True, False)
    ok, nt = _core(steps)
    return hx.verdict(ok, nt)
