"""C13 - hinted evolution text is loadable and means what the hint meant.

(a) eval(serialize_to_python(v)) == v over value shapes chosen symbolically (primitive contents
    come from pools selected by symbolic index because repr() realises them);
(b) for mutations built from symbolic choices: the text of get_evolution_content() executes in a
    fresh namespace and yields mutations of equal type, equal re-rendered hint and equal
    simulate() effect; a NullFieldInitialCallback placeholder renders to text that refuses to run.
"""
from collections import OrderedDict

from vlib import boot  # noqa
from vlib import hx

from django.db import models
from django.db.models import F, Q, Value, Deferrable

from django_evolution.errors import EvolutionException
from django_evolution.evolve.evolve_app_task import EvolveAppTask
from django_evolution.mutations import (AddField, ChangeField, ChangeMeta, DeleteApplication,
                                        DeleteField, DeleteModel, RenameAppLabel, RenameField,
                                        RenameModel)
from django_evolution.placeholders import NullFieldInitialCallback
from django_evolution.serialization import serialize_to_python
from django_evolution.signature import (AppSignature, FieldSignature, ModelSignature,
                                        ProjectSignature)

STRS = ['', "'", '"', chr(92), '\n', 'é', '%s', '{}', "it's \"q\"", 'abc']
INTS = [0, -1, 2 ** 63 - 1, 7]
CLASSES = [models.CharField, models.IntegerField, models.ForeignKey, models.UniqueConstraint]
NS = {'models': models}


def _leaf(kind, i):
    """kind 0 str, 1 int, 2 bool, 3 None, 4 class."""
    if kind == 0:
        return hx.pick(STRS, i % len(STRS))
    if kind == 1:
        return hx.pick(INTS, i % len(INTS))
    if kind == 2:
        return bool(i % 2)
    if kind == 3:
        return None
    return hx.pick(CLASSES, i % len(CLASSES))


def _roundtrip(v):
    text = hx.realize(serialize_to_python(v))            # code under test: traced
    with hx.NoTracing():                     # oracle: plain Python on the produced text
        if type(text) is not str:
            return False
        back = eval(text, dict(NS))
        if type(back) is not type(v) and not (isinstance(v, dict) and isinstance(back, dict)):
            return False
        return back == v


def h_py_primitives(container: int, k0: int, i0: int, k1: int, i1: int, n: int) -> bool:
    """Primitives alone (container 0) and inside list / tuple / dict / OrderedDict / nested.

    container 1 list, 2 tuple, 3 dict, 4 OrderedDict, 5 list of tuples, 6 dict of lists
    pre: 0 <= container <= 6 and 0 <= k0 <= 4 and 0 <= k1 <= 4 and 0 <= i0 <= 9 and 0 <= i1 <= 9
    pre: 0 <= n <= 2 and (container != 0 or (n == 1 and k1 == 0 and i1 == 0))
    pre: hx.in_part(container, k0)
    pre: not hx.excluded(container, k0, i0, k1, i1, n)
    post: _
    """
    container = hx.realize(container)
    l0, l1 = _leaf(k0, i0), _leaf(k1, i1)
    with hx.NoTracing():         # leaves are concrete objects here; build plain containers
        leaves = [l0, l1][:hx.realize(n)]
        if container == 0:
            v = leaves[0]
        elif container == 1:
            v = list(leaves)
        elif container == 2:
            v = tuple(leaves)
        elif container == 3:
            v = dict(('k%d' % j, x) for j, x in enumerate(leaves))
        elif container == 4:
            v = OrderedDict(('z%d' % (9 - j), x) for j, x in enumerate(leaves))
        elif container == 5:
            v = [tuple(leaves), tuple(reversed(leaves))]
        else:
            v = {'a': list(leaves), 'b': []}
    return hx.verdict(_roundtrip(v), True)


CONNS = [Q.AND, Q.OR, getattr(Q, 'XOR', Q.OR)]


def _q_leaf(j, kind, i):
    return Q(**{'f%d__gt' % j if j else 'f0': _leaf(kind, i)})


def _q(conn, neg, kids):
    q = Q()
    q.connector = conn
    for k in kids:
        q.children.append(k)
    if neg:
        q.negated = True
    return q


def h_py_q(conn: int, neg: bool, n: int, nest0: bool, nest1: bool,
           iconn: int, ineg: bool, inn: int, k: int, i: int) -> bool:
    """Q trees of depth <= 2: outer connector/negation, 0-2 children each either a lookup or a
    nested Q (inner connector/negation, 1-2 lookups) - includes single-child nesting and XOR.

    pre: 0 <= conn <= 2 and 0 <= iconn <= 2 and 0 <= n <= 2 and 1 <= inn <= 2
    pre: 0 <= k <= 1 and 0 <= i <= 1
    pre: (n >= 1 or not nest0) and (n >= 2 or not nest1)
    pre: hx.in_part(conn, n)
    pre: not hx.excluded(conn, neg, n, nest0, nest1, iconn, ineg, inn, k, i)
    post: _
    """
    kids = []
    for j, nested in enumerate([nest0, nest1][:n]):
        if nested:
            inner = [('g%d' % m, _leaf(k, i + m)) for m in range(inn)]
            kids.append(_q(hx.pick(CONNS, iconn), ineg, inner))
        else:
            kids.append(('f%d' % j, _leaf(k, i)))
    q = _q(hx.pick(CONNS, conn), neg, kids)
    text = hx.realize(serialize_to_python(q))
    with hx.NoTracing():
        back = eval(text, dict(NS))
        # Q equality in Django compares deconstruct(); flattening of same-connector children by
        # the & | ^ operators is semantically neutral, so compare by the SQL-relevant normal form
        ok = isinstance(back, Q) and _q_norm(back) == _q_norm(q)
    return hx.verdict(ok, True)


def _q_norm(q):
    """Normal form: (connector, negated, sorted children) with same-connector, non-negated
    nested nodes flattened and single-child non-negated wrappers removed."""
    if not isinstance(q, Q):
        return ('leaf', q[0], repr(q[1]))
    kids = []
    for c in q.children:
        nc = _q_norm(c)
        if nc[0] == 'node' and not nc[2] and (nc[1] == q.connector or len(nc[3]) == 1):
            kids.extend(nc[3])
        else:
            kids.append(nc)
    conn = q.connector if len(kids) > 1 else 'AND'
    if len(kids) == 1 and kids[0][0] == 'node':
        # a wrapper around a single node: its own connector is irrelevant, its negation is
        # absorbed into the wrapped node
        inner = kids[0]
        return ('node', inner[1], bool(q.negated) != inner[2], inner[3])
    return ('node', conn, bool(q.negated), tuple(kids))


def h_py_expr(kind: int, i: int, j: int, wrap: int) -> bool:
    """F, Value, combined expressions, Deferrable enums, a deconstructible constraint/index; bare or
    inside the dict/list shapes ChangeMeta uses.

    kind 0 F, 1 Value(int), 2 Value(str), 3 F + Value, 4 F * F, 5 Deferrable, 6 UniqueConstraint,
         7 Index with condition Q, 8 (F - Value) + F, 9 (F + Value) * Value, 10 Value - (F - F),
         11 set of ints (0-2 elements)
    pre: 0 <= kind <= 11 and 0 <= i <= 9 and 0 <= j <= 3 and 0 <= wrap <= 2
    pre: kind == 2 or i <= 3
    pre: hx.in_part(kind)
    pre: not hx.excluded(kind, i, j, wrap)
    post: _
    """
    name = hx.pick(['a', 'b_c', 'x__y', 'pk'], j)
    if kind == 0:
        v = F(name)
    elif kind == 1:
        v = Value(hx.pick(INTS, i))
    elif kind == 2:
        v = Value(hx.pick(STRS, i))
    elif kind == 3:
        v = F(name) + Value(hx.pick(INTS, i))
    elif kind == 4:
        v = F(name) * F('other')
    elif kind == 5:
        v = hx.pick([Deferrable.DEFERRED, Deferrable.IMMEDIATE, Deferrable.DEFERRED, Deferrable.IMMEDIATE], i)
    elif kind == 6:
        v = models.UniqueConstraint(fields=(name, 'z'), name=hx.pick(['uc_0', 'uc_1', 'uc_2', 'uc_3'], i))
    elif kind == 7:
        v = models.Index(fields=[name], name='ix', condition=Q(**{name + '__gt': hx.pick(INTS, i)}))
    elif kind == 8:
        v = (F(name) - Value(hx.pick(INTS, i))) + F('other')
    elif kind == 9:
        v = (F(name) + Value(hx.pick(INTS, i))) * Value(2)
    elif kind == 10:
        v = Value(hx.pick(INTS, i)) - (F(name) - F('other'))
    else:
        with hx.NoTracing():
            v = set([7, -1][:hx.realize(i) % 3])
    if wrap == 1:
        v = [{'name': 'n', 'value': v}]
    elif wrap == 2:
        v = {'expressions': (v,), 'fields': ['a']}
    text = hx.realize(serialize_to_python(v))
    with hx.NoTracing():
        back = eval(text, dict(NS))
        ok = _expr_eq(back, v)
    return hx.verdict(ok, True)


def _expr_eq(a, b):
    if isinstance(b, (list, tuple)):
        return type(a) is type(b) and len(a) == len(b) and all(_expr_eq(x, y) for x, y in zip(a, b))
    if isinstance(b, dict):
        return isinstance(a, dict) and set(a) == set(b) and all(_expr_eq(a[k], b[k]) for k in b)
    if isinstance(b, (set, frozenset)):
        return type(a) is type(b) and a == b
    if hasattr(b, 'deconstruct') and not isinstance(b, type):
        return type(a) is type(b) and _decon(a) == _decon(b)
    return a == b and type(a) is type(b)


def _decon(x):
    if hasattr(x, 'deconstruct') and not isinstance(x, type):
        path, args, kwargs = x.deconstruct()
        return (path, tuple(_decon(a) for a in args),
                tuple(sorted((k, _decon(v)) for k, v in kwargs.items())))
    if isinstance(x, (list, tuple)):
        return tuple(_decon(a) for a in x)
    return repr(x)


# ---------------------------------------------------------------------------------------
# (b) mutations -> evolution file text -> mutations

class _App(object):
    __name__ = 'someapp.models'


def _base_project():
    proj = ProjectSignature()
    app = AppSignature(app_id='app')
    proj.add_app_sig(app)
    m = ModelSignature(model_name='M', table_name='app_m', pk_column='id')
    m.add_field_sig(FieldSignature('id', models.AutoField, {'primary_key': True}))
    m.add_field_sig(FieldSignature('a', models.CharField, {'max_length': 20}))
    m.add_field_sig(FieldSignature('b', models.IntegerField, {'null': True}))
    app.add_model_sig(m)
    n = ModelSignature(model_name='N', table_name='app_n', pk_column='id')
    n.add_field_sig(FieldSignature('id', models.AutoField, {'primary_key': True}))
    app.add_model_sig(n)
    return proj


def _mutation(kind, s, i, flag):
    """One mutation of each hintable shape; s indexes STRS, i indexes INTS."""
    sval = hx.pick(STRS, s)
    ival = hx.pick(INTS, i)
    if kind == 0:
        return AddField('M', 'c', models.CharField, initial=sval, max_length=ival if ival > 0 else 5,
                        null=flag)
    if kind == 1:
        return AddField('M', 'c', models.IntegerField, initial=ival, db_column=sval or None)
    if kind == 2:
        return AddField('M', 'c', models.ForeignKey, null=True, related_model='app.N',
                        db_index=flag)
    if kind == 3:
        return ChangeField('M', 'a', initial=None, max_length=ival if ival > 0 else 9)
    if kind == 4:
        return ChangeField('M', 'b', initial=ival, null=False)
    if kind == 5:
        return ChangeField('M', 'a', field_type=models.TextField, initial=sval, null=flag)
    if kind == 6:
        return DeleteField('M', 'b')
    if kind == 7:
        return RenameField('M', 'a', 'a2', db_column=sval or None)
    if kind == 8:
        return ChangeMeta('M', 'unique_together', [('a', 'b')] if flag else [])
    if kind == 9:
        return ChangeMeta('M', 'indexes', [{'name': 'ix1', 'fields': ['a', '-b']},
                                           {'fields': ['b'], 'name': 'ix2',
                                            'condition': Q(b__gt=ival) | ~Q(a=sval)}])
    if kind == 10:
        return ChangeMeta('M', 'constraints', [{'type': models.UniqueConstraint, 'name': 'uc',
                                                'fields': ('a', 'b'),
                                                'condition': Q(b__gte=ival)},
                                               {'type': models.CheckConstraint, 'name': 'ck',
                                                'check': Q(b__gt=ival) & Q(a=sval)}])
    if kind == 11:
        return RenameModel('N', 'N2', db_table=sval or 'app_n')
    if kind == 12:
        return DeleteModel('N')
    if kind == 13:
        return ChangeMeta('M', 'index_together', [('a', 'b')])
    if kind == 14:
        return ChangeMeta('M', 'constraints', [{'type': models.UniqueConstraint, 'name': 'uc',
                                                'fields': ('a',),
                                                'deferrable': Deferrable.DEFERRED}])
    if kind == 16:
        return AddField('M', 'c', CUSTOM_FIELDS[0], initial=ival)
    if kind == 17:
        return ChangeField('M', 'b', field_type=CUSTOM_FIELDS[1], initial=ival, null=flag)
    return AddField('M', 'c', models.ManyToManyField, related_model='app.N', db_table=sval or None)


# project-defined field classes living in ordinary modules (one of them under a path that merely
# contains '.db.models'): the evolution file has to import them by name
import sys as _sys
import types as _types


def _install_custom_fields():
    out = []
    for modname, clsname in (('vproj.db.models.fields', 'QuantityField'), ('vother.fields', 'ColourField')):
        parts = modname.split('.')
        for n in range(1, len(parts) + 1):
            name = '.'.join(parts[:n])
            if name not in _sys.modules:
                m = _types.ModuleType(name)
                m.__path__ = []
                _sys.modules[name] = m
                if n > 1:
                    setattr(_sys.modules['.'.join(parts[:n - 1])], parts[n - 1], m)
        mod = _sys.modules[modname]
        cls = type(clsname, (models.IntegerField,), {'__module__': modname})
        setattr(mod, clsname, cls)
        out.append(cls)
    return out


CUSTOM_FIELDS = _install_custom_fields()


def _content(muts):
    task = EvolveAppTask.__new__(EvolveAppTask)
    task.app = _App()
    task.app_label = 'app'
    task._mutations = muts
    return task.get_evolution_content()


def _sim(muts):
    proj = _base_project()
    for m in muts:
        m.run_simulation(app_label='app', project_sig=proj, database_state=None,
                         database='default')
    return proj.serialize()


def h_content(k0: int, k1: int, s: int, i: int, flag: bool, two: bool) -> bool:
    """
    pre: 0 <= k0 <= 17 and 0 <= k1 <= 17 and 0 <= s <= 9 and 0 <= i <= 3
    pre: two or k1 == 0
    pre: hx.in_part(k0)
    pre: not hx.excluded(k0, k1, s, i, flag, two)
    post: _
    """
    flag = True if flag else False           # a real bool (the serializer dispatches on type())
    muts = [_mutation(k0, s, i, flag)]
    if two:
        muts.append(_mutation(k1, (s + 1) % 10, (i + 1) % 4, not flag))
    text = hx.realize(_content(muts))                    # code under test: traced
    with hx.NoTracing():                     # oracle: load the text as an evolution module
        ns = {}
        exec(compile(text, '<evolution>', 'exec'), ns)
        loaded = ns.get('MUTATIONS')
        ok = isinstance(loaded, list) and len(loaded) == len(muts)
        if ok:
            for a, b in zip(loaded, muts):
                ok = ok and type(a) is type(b) and str(a) == str(b)
                # the loaded mutation carries the same arguments (what the SQL is generated from)
                ok = ok and _expr_eq(dict(vars(a)), dict(vars(b)))
        if ok and not two:
            ok = _sim(loaded) == _sim(muts)
    return hx.verdict(ok, True)


def _needs_models_without_addfield(k0, k1, two):
    ks = [k0] + ([k1] if two else [])
    uses_models = any(k in (5, 9, 10, 14) for k in ks)
    has_add = any(k in (0, 1, 2, 15) for k in ks)
    return uses_models and not has_add


def h_placeholder(kind: int) -> bool:
    """A hint that needs user input renders an explicit placeholder whose text does not execute,
    and the placeholder object itself refuses to run.

    pre: 0 <= kind <= 1
    post: _
    """
    ph = NullFieldInitialCallback('app', 'M', 'c')
    if kind == 0:
        m = AddField('M', 'c', models.IntegerField, initial=ph)
    else:
        m = ChangeField('M', 'b', initial=ph, null=False)
    text = _content([m])
    ok = '<<USER VALUE REQUIRED>>' in text
    try:
        exec(compile(text, '<evolution>', 'exec'), {})
        ok = False
    except SyntaxError:
        pass
    try:
        ph()
        ok = False
    except EvolutionException:
        pass
    return hx.verdict(ok, True)
