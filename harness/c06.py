"""C06 - stored project signatures read back exactly as written.

A project signature built from symbolic shape choices goes through the real storage path
(SignatureField._dumps -> text -> SignatureField.to_python, i.e. json with
object_pairs_hook=OrderedDict) and must come back equal, with an empty Diff both ways and the
same stored text when re-serialised.
"""
from vlib import boot  # noqa
from vlib import hx

from django.db import models
from django.db.models import F, Q, Value, Deferrable

from django_evolution.consts import UpgradeMethod
from django_evolution.diff import Diff
from django_evolution.models import SignatureField
from django_evolution.signature import (AppSignature, ConstraintSignature, FieldSignature,
                                        IndexSignature, ModelSignature, ProjectSignature)

FIELD = SignatureField()
STRS = ['x', '', "it's", 'a"b', 'é', 'col name', '%s']
INTS = [0, 1, 255, 2 ** 31]
LENS = [0, None, 255, 2 ** 31]          # max_length stated as 0 / None / ordinary values
COLS = ['x', None, "it's", 'a"b', 'é', 'col name', '']
TYPES = [models.CharField, models.IntegerField, models.BooleanField, models.DecimalField,
         models.ForeignKey, models.ManyToManyField, models.OneToOneField]


def _store_and_load(proj):
    text = FIELD._dumps(proj)
    loaded = FIELD.to_python(hx.realize(text))
    return text, loaded


def _roundtrip_ok(proj):
    # code under test, traced: store, load, store again
    text, loaded = _store_and_load(proj)
    text2 = FIELD._dumps(loaded)
    text, text2 = hx.realize(text), hx.realize(text2)
    # oracle on the (concrete) results, untraced
    with hx.NoTracing():
        ok = type(text) is str and text.startswith('json!')
        ok = ok and (loaded == proj) and (proj == loaded)
        ok = ok and Diff(proj, loaded).is_empty(False) and Diff(loaded, proj).is_empty(False)
        ok = ok and text2 == text
    return ok


def _project(model_sigs, app_id='app', legacy=None, upgrade_method=None, applied=None):
    proj = ProjectSignature()
    app = AppSignature(app_id=app_id, legacy_app_label=legacy, upgrade_method=upgrade_method,
                       applied_migrations=applied)
    proj.add_app_sig(app)
    for ms in model_sigs:
        app.add_model_sig(ms)
    return proj


def _model(fields=(), ut=(), it=(), indexes=(), constraints=(), comment=None, table='app_m',
           tablespace=None, ut_applied=True):
    ms = ModelSignature(model_name='M', table_name=table, pk_column='id', db_tablespace=tablespace,
                        unique_together=ut, index_together=it, db_table_comment=comment,
                        unique_together_applied=ut_applied)
    ms.add_field_sig(FieldSignature('id', models.AutoField, {'primary_key': True}))
    for f in fields:
        ms.add_field_sig(f)
    for i in indexes:
        ms.add_index_sig(i)
    for c in constraints:
        ms.add_constraint_sig(c)
    return ms


def _fmask(p_null, p_len, p_col, p_idx, p_uniq, p_dec, p_tbl):
    """Partition component 1: bit mask of attributes that may be stated (1 null, 2 max_length,
    4 db_column, 8 db_index, 16 unique, 32 max_digits/decimal_places, 64 db_table)."""
    mask = hx.part(1, 127)
    return ((mask & 1 or not p_null) and (mask & 2 or not p_len) and (mask & 4 or not p_col) and
            (mask & 8 or not p_idx) and (mask & 16 or not p_uniq) and (mask & 32 or not p_dec) and
            (mask & 64 or not p_tbl))


def h_field(t: int, p_null: bool, null: bool, p_len: bool, li: int, p_col: bool, ci: int,
            p_idx: bool, idx: bool, p_uniq: bool, uniq: bool, p_dec: bool, di: int,
            p_tbl: bool, ti: int) -> bool:
    """Field attributes: every tracked attribute absent / stated with None-like, False, 0 or other
    values; relation targets; unicode and quote characters in db_column / db_table.

    pre: 0 <= t <= 6 and 0 <= li <= 3 and 0 <= ci <= 6 and 0 <= di <= 3 and 0 <= ti <= 6
    pre: hx.in_part(t)
    pre: (t == 3 or not p_dec) and (t == 5 or not p_tbl)
    pre: _fmask(p_null, p_len, p_col, p_idx, p_uniq, p_dec, p_tbl)
    pre: not hx.excluded(t, p_null, null, p_len, li, p_col, ci, p_idx, idx, p_uniq, uniq, p_dec, di, p_tbl, ti)
    post: _
    """
    # attributes are inserted in the canonical order FieldSignature.from_field uses (the stored
    # text is compared byte for byte, and JSON keeps insertion order)
    attrs = {}
    if p_len:
        attrs['max_length'] = hx.pick(LENS, li)
    if p_uniq:
        attrs['unique'] = True if uniq else False
    if p_null:
        attrs['null'] = True if null else False
    if p_idx:
        attrs['db_index'] = True if idx else False
    if p_col:
        attrs['db_column'] = hx.pick(COLS, ci)
    if p_dec:
        attrs['max_digits'] = hx.pick(INTS, di)
        attrs['decimal_places'] = hx.pick(INTS, di)
    if p_tbl:
        attrs['db_table'] = hx.pick(STRS, ti)
    related = 'other_app.Target' if t >= 4 else None
    f = FieldSignature('f', hx.pick(TYPES, t), attrs, related_model=related)
    return hx.verdict(_roundtrip_ok(_project([_model([f])])), True)


def _seq(kind, items):
    return tuple(items) if kind else list(items)


def h_togethers(ut_n: int, ut_tuple_outer: bool, ut_tuple_inner: bool,
                it_n: int, it_tuple_outer: bool, it_tuple_inner: bool, applied: bool,
                com: int, tbs: int) -> bool:
    """unique_together / index_together given as lists or tuples (both levels), the
    unique_together-applied flag, db_table_comment and db_tablespace (None / '' / text).

    pre: 0 <= ut_n <= 2 and 0 <= it_n <= 2 and 0 <= com <= 3 and 0 <= tbs <= 2
    pre: (ut_n > 0 or not (ut_tuple_inner or ut_tuple_outer)) and (it_n > 0 or not (it_tuple_inner or it_tuple_outer))
    pre: (com == 0 or tbs == 0)
    pre: hx.in_part(ut_n, it_n)
    pre: not hx.excluded(ut_n, ut_tuple_outer, ut_tuple_inner, it_n, it_tuple_outer, it_tuple_inner, applied, com, tbs)
    post: _
    """
    entries = [['a', 'b'], ['b', 'c']]
    ut = _seq(ut_tuple_outer, [_seq(ut_tuple_inner, e) for e in entries[:ut_n]])
    it = _seq(it_tuple_outer, [_seq(it_tuple_inner, e) for e in entries[:it_n]])
    comment = hx.pick([None, '', 'é "q"', "it's"], com)
    tablespace = hx.pick([None, '', 'ts'], tbs)
    fields = [FieldSignature(n, models.IntegerField, {}) for n in ('a', 'b', 'c')]
    ms = _model(fields, ut=ut, it=it, comment=comment, tablespace=tablespace,
                ut_applied=True if applied else False)
    return hx.verdict(_roundtrip_ok(_project([ms])), True)


def _cond(kind, vi):
    v = hx.pick([0, "it's", True, None, -1, 'x'], vi)
    if kind == 0:
        return None
    if kind == 1:
        return Q(a__gt=v)
    if kind == 2:
        return Q(a=v) | Q(b__lt=3)
    if kind == 3:
        return ~Q(a=v)
    if kind == 4:
        return ~(Q(a=v) & Q(b=1)) | Q(c=2)
    if kind == 5:
        return Q(Q(a=v) | Q(b=1), c=2)
    # plain (not negated) nested Q children, which Q.add()/&/| would squash into the parent
    if kind == 7:
        return Q(Q(a=v), b=2)
    if kind == 8:
        return Q(Q(a=v))
    if kind == 9:
        return ~Q(Q(a=v) & Q(b=2))
    if kind == 10:
        return Q(Q(a=v)) | Q(Q(b=2), Q(c=3))
    # negated nodes with a non-default connector, top-level and nested
    if kind == 11:
        return ~(Q(a=v) | Q(b=1))
    if kind == 12:
        return Q(c=2) & ~(Q(a=v) | Q(b=1))
    return Q(a=v) ^ Q(b=1) if hasattr(Q, 'XOR') else Q(a=v) | Q(b=1)


def h_index(cond: int, expr: int, name_i: int, f_kind: int, f_tuple: bool, vi: int, inc: int,
            inc_tuple: bool, opc: bool, tbs: bool) -> bool:
    """Meta.indexes: name or none, ordering prefixes, fields as list/tuple, condition Q trees
    (nested, negated, OR, XOR), include as list/tuple, opclasses, db_tablespace, expressions.

    pre: 0 <= name_i <= 1 and 0 <= f_kind <= 2 and 0 <= cond <= hx.bound(6, 12) and 0 <= vi <= hx.part(2, 3)
    pre: 0 <= inc <= 1 and 0 <= expr <= 3 and (inc == 1 or not inc_tuple) and not (opc and tbs)
    pre: cond > 0 or vi == 0
    pre: (expr == 0 or f_kind == 0) and (f_kind > 0 or expr > 0)
    pre: hx.in_part(cond, expr)
    pre: not hx.excluded(cond, expr, name_i, f_kind, f_tuple, vi, inc, inc_tuple, opc, tbs)
    post: _
    """
    fields = hx.pick([None, ['a'], ['-a', 'b']], f_kind)
    if fields is not None and f_tuple:
        fields = tuple(fields)
    attrs = {}
    c = _cond(cond, vi)
    if c is not None:
        attrs['condition'] = c
    if inc:
        attrs['include'] = _seq(inc_tuple, ['c'])
    if opc:
        attrs['opclasses'] = ['varchar_pattern_ops'] * (len(fields) if fields else 1)
    if tbs:
        attrs['db_tablespace'] = 'ts'
    expressions = hx.pick([None, [F('a')], [F('a') + Value(1)], [F('a').desc(), F('b')]], expr)
    sig = IndexSignature(fields=fields, name=hx.pick([None, 'ix_é'], name_i),
                         expressions=expressions, attrs=attrs)
    fs = [FieldSignature(n, models.IntegerField, {}) for n in ('a', 'b', 'c')]
    return hx.verdict(_roundtrip_ok(_project([_model(fs, indexes=[sig])])), True)


def h_constraint(kind: int, cond: int, f_tuple: bool, vi: int, defer: int, inc: int,
                 inc_tuple: bool, two: bool) -> bool:
    """Meta.constraints: UniqueConstraint (fields list/tuple, condition, deferrable, include) and
    CheckConstraint (check Q tree); one or two constraints.

    pre: 0 <= kind <= 1 and 0 <= cond <= 12 and 0 <= vi <= 3 and 0 <= defer <= 2 and 0 <= inc <= 1
    pre: (cond > 0 or vi == 0) and (inc == 1 or not inc_tuple)
    pre: (kind == 0 or (defer == 0 and inc == 0 and not f_tuple and cond > 0))
    pre: (defer == 0 or cond == 0)
    pre: hx.in_part(kind, cond)
    pre: not hx.excluded(kind, cond, f_tuple, vi, defer, inc, inc_tuple, two)
    pre: not (hx.kf('c06_constraint_tuples') and kind == 0 and (f_tuple or (inc and inc_tuple)))
    post: _
    """
    sigs = []
    if kind == 0:
        attrs = {'fields': _seq(f_tuple, ['a', 'b'])}
        c = _cond(cond, vi)
        if c is not None:
            attrs['condition'] = c
        if defer:
            attrs['deferrable'] = hx.pick([None, Deferrable.DEFERRED, Deferrable.IMMEDIATE], defer)
        if inc:
            attrs['include'] = _seq(inc_tuple, ['c'])
        sigs.append(ConstraintSignature('uc_é', models.UniqueConstraint, attrs))
    else:
        sigs.append(ConstraintSignature('ck', models.CheckConstraint, {'check': _cond(cond, vi)}))
    if two:
        sigs.append(ConstraintSignature('uc2', models.UniqueConstraint, {'fields': ['c']}))
    fs = [FieldSignature(n, models.IntegerField, {}) for n in ('a', 'b', 'c')]
    return hx.verdict(_roundtrip_ok(_project([_model(fs, constraints=sigs)])), True)


def h_app(um: int, n_mig: int, legacy: int, app_i: int, two_apps: bool, empty_app: bool) -> bool:
    """Upgrade method, applied-migration lists, legacy app labels, several apps, app without models.

    pre: 0 <= um <= 2 and 0 <= n_mig <= 2 and 0 <= legacy <= 2 and 0 <= app_i <= 2
    pre: um == 2 or n_mig == 0
    pre: not hx.excluded(um, n_mig, legacy, app_i, two_apps, empty_app)
    post: _
    """
    method = hx.pick([None, UpgradeMethod.EVOLUTIONS, UpgradeMethod.MIGRATIONS], um)
    applied = None
    if um == 2:
        applied = set(['0002_b', '0001_initial'][:n_mig])
    app_id = hx.pick(['app', 'app_é', 'A.b'], app_i)
    leg = hx.pick([None, 'legacy', app_id], legacy)
    models_ = [] if empty_app else [_model([FieldSignature('a', models.IntegerField, {})])]
    proj = _project(models_, app_id=app_id, legacy=leg, upgrade_method=method, applied=applied)
    if two_apps:
        other = AppSignature(app_id='zother', upgrade_method=UpgradeMethod.EVOLUTIONS)
        other.add_model_sig(_model([FieldSignature('r', models.ForeignKey, {}, related_model=app_id + '.M')]))
        proj.add_app_sig(other)
    return hx.verdict(_roundtrip_ok(proj), True)


def h_v1(t: int, p_null: bool, null: bool, p_len: bool, li: int, ut_n: int, it_n: int,
         named_index: bool) -> bool:
    """v2 -> v1 -> v2 for the v1-expressible subset (no constraints, no index attrs/expressions,
    no upgrade method): same logical content.

    pre: 0 <= t <= 6 and 0 <= li <= 1 and 0 <= ut_n <= 2 and 0 <= it_n <= 2 and ut_n != 1 and it_n != 1
    pre: hx.in_part(t)
    pre: not hx.excluded(t, p_null, null, p_len, li, ut_n, it_n, named_index)
    post: _
    """
    attrs = {}
    if p_len:
        attrs['max_length'] = hx.pick(INTS, li)
    if p_null:
        attrs['null'] = True if null else False
    related = 'app.M' if t >= 4 else None
    f = FieldSignature('f', hx.pick(TYPES, t), attrs, related_model=related)
    entries = [('a', 'b'), ('b', 'c')]
    fs = [FieldSignature(n, models.IntegerField, {}) for n in ('a', 'b', 'c')] + [f]
    idx = [IndexSignature(fields=['a', 'b'], name='ix' if named_index else None)]
    proj = _project([_model(fs, ut=entries[:ut_n], it=entries[:it_n], indexes=idx)])
    v1 = proj.serialize(sig_version=1)
    import django_evolution.signature as sigmod
    saved = sigmod.get_app
    # the v1 loader asks the app registry for the upgrade method; 'app' is not installed
    try:
        back = ProjectSignature.deserialize(v1)
    finally:
        sigmod.get_app = saved
    ok = (back == proj) and Diff(proj, back).is_empty(False) and Diff(back, proj).is_empty(False)
    ok = ok and back.serialize(sig_version=2) == proj.serialize(sig_version=2)
    return hx.verdict(ok, True)
