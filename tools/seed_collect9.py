#!/usr/bin/env python3
"""Round 9 of seeded changes (properties whose checks were built later): /tmp/seed9_* -> /verif/seeded/<PROP>_r9_<name>/"""
import json, os, re, shutil, glob
conf = {}
for f in glob.glob('/tmp/p/confirm_r9_*.txt'):
    for l in open(f):
        m = re.match(r"(C\d+)/(\w+) demo_clean_rc=(\d+) demo_seeded_rc=(\d+) suite='(.*)'", l)
        if m:
            conf[(m.group(1), m.group(2))] = {'demo_clean_rc': int(m.group(3)), 'demo_seeded_rc': int(m.group(4)), 'suite': m.group(5)}
det = {}
for f in ('/tmp/p/detect_round17_raw.txt', '/tmp/p/detect_round18_raw.txt'):
    for l in open(f):
        m = re.match(r"r9_(C\d+)_(\w+) check=(C\d+) rc=(\d+) violations=(\d+) secs=(\d+) first: (.*)", l)
        if m:
            det.setdefault((m.group(1), m.group(2)), []).append(
                {'round': os.path.basename(f), 'check': m.group(3), 'rc': int(m.group(4)), 'violations': int(m.group(5)),
                 'secs': int(m.group(6)), 'first': m.group(7)[:400]})
for d in sorted(glob.glob('/tmp/seed9_C*/out/*')):
    prop = d.split('/')[2].replace('seed9_', '')
    name = os.path.basename(d)
    dst = '/verif/seeded/%s_r9_%s' % (prop, name)
    os.makedirs(dst, exist_ok=True)
    for fn in ('patch.diff', 'demo.py', 'notes.md'):
        if os.path.exists(os.path.join(d, fn)):
            shutil.copy(os.path.join(d, fn), os.path.join(dst, fn))
    notes = open(os.path.join(d, 'notes.md')).read() if os.path.exists(os.path.join(d, 'notes.md')) else ''
    runs = det.get((prop, name), [])
    meta = {
        'property': prop, 'name': 'r9_' + name,
        'origin': 'independent sub-agent given only the property text (plus the list of already-known weaknesses to avoid) and a scratch worktree of /repo',
        'needs_to_manifest': notes[:1500],
        'confirmed_by_me': conf.get((prop, name)),
        'confirmation_cmd': 'tools/seed_confirm9.sh %s %s' % (prop, name),
        'detection_cmd': 'tools/seed_detect_scratch.sh %s <scratch worktree> seeded/%s_r9_%s/patch.diff r9_%s_%s' % (prop, prop, name, prop, name),
        'detection_runs': runs,
        'detected': bool(runs and runs[-1]['rc'] == 1 and runs[-1]['violations'] > 0),
    }
    json.dump(meta, open(os.path.join(dst, 'meta.json'), 'w'), indent=1)
    print(prop, name, 'detected' if meta['detected'] else 'NOT detected', len(runs))
