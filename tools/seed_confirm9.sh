#!/bin/sh
# round 9: worktree /tmp/seed9_<PROP>
P=$1; N=$2; W=/tmp/seed9_$P; D=$W/out/$N
cd $W || exit 9
git checkout -q -- .
SEED_ROOT=$W /venv/bin/python $D/demo.py >/dev/null 2>&1; clean=$?
git apply $D/patch.diff || { echo "$P/$N patch does not apply"; exit 9; }
SEED_ROOT=$W /venv/bin/python $D/demo.py >/dev/null 2>&1; seeded=$?
suite=$(/venv/bin/python -m pytest -q -p no:cacheprovider --timeout=900 2>&1 | tail -1)
git checkout -q -- .
echo "$P/$N demo_clean_rc=$clean demo_seeded_rc=$seeded suite='$suite'"
