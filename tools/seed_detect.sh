#!/bin/sh
# usage: seed_detect.sh <PROP> <patch file> <label>: apply to /repo, run the quick check, undo.
P=$1; PATCH=$2; L=$3
cd /verif
git -C /repo apply $PATCH || { echo "$L: patch does not apply to /repo"; exit 9; }
t0=$(date +%s)
./check $P quick > /tmp/p/detect_$L.out 2>&1; rc=$?
t1=$(date +%s)
git -C /repo checkout -q -- .
nv=$(grep -c "^VIOLATION" /tmp/p/detect_$L.out)
echo "$L check=$P rc=$rc violations=$nv secs=$((t1-t0)) first: $(grep -A2 '^VIOLATION' /tmp/p/detect_$L.out | head -3 | tr '\n' ' ' | cut -c1-300)"
