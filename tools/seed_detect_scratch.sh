#!/bin/sh
# usage: seed_detect_scratch.sh <PROP> <worktree> <patch> <label>: apply the patch in a scratch
# worktree and point the check at it (VERIF_REPO); /repo and /verif/evidence stay untouched.
P=$1; W=$2; PATCH=$3; L=$4
cd $W && git checkout -q -- . && git apply $PATCH || { echo "$L: patch does not apply"; exit 9; }
cd /verif
t0=$(date +%s)
VERIF_REPO=$W VERIF_EVIDENCE_DIR=/tmp/p/ev_scratch ./check $P quick > /tmp/p/detect_$L.out 2>&1; rc=$?
t1=$(date +%s)
git -C $W checkout -q -- .
nv=$(grep -c "^VIOLATION" /tmp/p/detect_$L.out)
echo "$L check=$P rc=$rc violations=$nv secs=$((t1-t0)) first: $(grep -A2 '^VIOLATION' /tmp/p/detect_$L.out | head -3 | tr '\n' ' ' | cut -c1-300)"
