#!/usr/bin/env python3
"""Regenerates /verif/MANIFEST.json from the table below (kept valid at all times)."""
import json, os

CHECKS = {}
NA = {}

def check(pid, text, note, technique, category='model_checking', design_ref=''):
    CHECKS[pid] = {
        'property_id': pid,
        'quick_cmd': './check %s quick' % pid,
        'thorough_cmd': './check %s thorough' % pid,
        'evidence_file': '/verif/evidence/%s.json' % pid,
        'replay_cmd_template': './check %s --replay {path}' % pid,
        'engine': 'E1-crosshair' if category == 'model_checking' else 'E2-sqlsmt',
        'level_claimed': {'category': category, 'text': text, 'design_ref': design_ref},
        'level_note': note,
        'technique': technique,
    }

exec(open(os.path.join(os.path.dirname(__file__), 'manifest_table.py')).read())

props = [json.loads(l)['id'] for l in open('/verif/properties.jsonl')]
man = {
    'version': 1,
    'setup_cmd': './setup.sh',
    'hooks': {
        'guard': 'DJANGO_EVOLUTION_VERIF',
        'enable': 'no guarded hook exists in /repo: the checks import /repo from its working tree and stub the environment from the harness side',
        'baseline_off_cmd': 'cd /repo && /venv/bin/python -m pytest -ra -q -p no:cacheprovider --timeout=900 --continue-on-collection-errors',
        'source_commits': [],
        'add_only': True,
    },
    'engines': [
        {'name': 'E1-crosshair', 'path': '/verif/vlib/runner.py', 'serves_properties': sorted(k for k, v in CHECKS.items() if v['engine'] == 'E1-crosshair'),
         'kind_free_text': 'CrossHair 0.0.110 symbolic execution of the real Python functions with z3, one process per partition, concrete replay of every counterexample'},
        {'name': 'E2-sqlsmt', 'path': '/verif/vlib/sqlsmt.py', 'serves_properties': sorted(k for k, v in CHECKS.items() if v['engine'] == 'E2-sqlsmt'),
         'kind_free_text': 'z3 semantics of the SQL emitted by the real generator over symbolic table contents'},
    ],
    'checks': [CHECKS[p] for p in props if p in CHECKS],
    'not_applicable': [{'property_id': p, 'reason': NA.get(p, 'no check built yet in this round')} for p in props if p not in CHECKS],
    'notes': 'See DESIGN.md. Every check regenerates its encoding from /repo working tree on each run.',
}
json.dump(man, open('/verif/MANIFEST.json', 'w'), indent=1)
print('checks:', [c['property_id'] for c in man['checks']])
print('n/a:', [c['property_id'] for c in man['not_applicable']])
