#!/bin/sh
# usage: negative_control.sh <worktree with a behaviour-preserving patch applied> <label> [checks...]
# Runs the quick checks against the scratch tree (VERIF_REPO); /repo and /verif/evidence untouched.
W=$1; L=$2; shift 2
CHECKS=${*:-C01 C02 C03 C05 C06 C07 C09 C11 C12 C13 C14 C15 C16 C17 C18}
cd /verif
for P in $CHECKS; do
  t0=$(date +%s)
  VERIF_REPO=$W VERIF_EVIDENCE_DIR=/tmp/p/ev_neg ./check $P quick > /tmp/p/neg_${L}_$P.out 2>&1; rc=$?
  echo "$L $P rc=$rc secs=$(( $(date +%s)-t0 )) violations=$(grep -c '^VIOLATION' /tmp/p/neg_${L}_$P.out) inconclusive=$(grep -c '^INCONCLUSIVE' /tmp/p/neg_${L}_$P.out) harness_errors=$(grep -c '^HARNESS-ERROR' /tmp/p/neg_${L}_$P.out)"
done
