#!/bin/sh
# Run the repository's pinned suite (guard off) and print the summary line.
cd /repo && /venv/bin/python -m pytest -q -p no:cacheprovider --timeout=900 2>&1 | tail -1
