#!/usr/bin/env python3
"""One-off helper: known findings of the E2 batched-vs-one-at-a-time comparison (C03)."""
import json, sys, collections
recs = json.load(open(sys.argv[1]))
v = [r for r in recs if r['status'] == 'violation']
WHAT = {
 'batched_index_bookkeeping': 'the optimised (batched) run ends with different per-field / unique indexes than one-at-a-time application of the same mutations: ChangeField(db_index/unique) merged into a rebuild started by another operation, or following a RenameModel/RenameField in the same batch, is lost or left behind (stale MockModel / DatabaseState bookkeeping inside one AppMutator run)',
 'regroup_reorders_across_models': 'the optimiser regroups mutations by sorted model name, so AddField(ManyToManyField to Anchor) followed by RenameModel(Anchor) is executed rename-first when batched and the M2M table gets base_id where one-at-a-time application leaves anchor_id',
 'merged_changefield_initial': 'two ChangeFields of one field are merged and the NULLs are filled with the last initial instead of the one declared by the null->non-null change (row data differs from one-at-a-time application)',
}
fams = collections.OrderedDict()
for r in v:
    kinds = set(k.split(':')[0] for k in r['diff_kinds'])
    if 'data' in kinds:
        f = 'merged_changefield_initial'
    elif 'columns' in kinds or 'tables' in kinds:
        f = 'regroup_reorders_across_models'
    else:
        f = 'batched_index_bookkeeping'
    fams.setdefault(f, {'sigs': set(), 'examples': []})
    fams[f]['sigs'].add(r['signature'])
    if len(fams[f]['examples']) < 3:
        fams[f]['examples'].append({'program': r['id'], 'mutations': r['muts'], 'detail': r['detail'][:300]})
d = json.load(open('/verif/known_findings.json'))
d['findings'] = [e for e in d['findings'] if not (e.get('property') == 'C03' and e.get('engine') == 'E2')]
for f, x in fams.items():
    d['findings'].append({'property': 'C03', 'engine': 'E2', 'id': 'c03-e2-%s' % f, 'what': WHAT[f],
                          'witness_examples': x['examples'], 'signatures': sorted(x['sigs'])})
    print(f, len(x['sigs']))
json.dump(d, open('/verif/known_findings.json', 'w'), indent=1)
