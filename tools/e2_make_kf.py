#!/usr/bin/env python3
"""One-off helper (run by hand, never by a check): turn the violations of an E2 run on the
unchanged tree (VERIF_E2_DUMP=...) into known-finding entries grouped by root-cause family."""
import json, sys, collections
prop, dump = sys.argv[1], sys.argv[2]
recs = json.load(open(dump))
v = [r for r in recs if r['status'] == 'violation']
fams = collections.OrderedDict()
WHAT = {
 'rebuild_drops_meta': 'after a SQLite table rebuild the indexes, unique indexes and check constraints that stem from Meta.unique_together / index_together / indexes / constraints of the rebuilt model are not restored (SQLiteAlterTableSQLResult.to_sql step 5 restores per-field indexes only), so the evolved schema lacks them',
 'exec_no_such_index': 'the generated SQL fails to execute with "no such index": a ChangeMeta/ChangeField drops an index that an earlier rebuild in the same evolution already lost, or resolves the wrong name from the scanned DatabaseState (e.g. DROP INDEX "ck_cnt" for ChangeField(db_index=False) on a model with a check constraint)',
 'm2m_columns_after_rename_model': 'RenameModel of the target of a ManyToManyField leaves the columns/indexes/foreign keys of the auto-created M2M table under the old model name (anchor_id) where a freshly created schema uses the new one (base_id)',
 'merged_changefield_initial': 'two ChangeFields of one field in one evolution are merged by the optimiser into one that carries the *last* initial value: ChangeField(null=False, initial=A) followed by ChangeField(max_length=.., initial=B) replaces the NULLs with B instead of the declared A (one-at-a-time application gives A)',
 'generator_crash': 'SQL generation crashes with AssertionError (change_column_attr_unique: assert index_state) for ChangeField(unique=False) after a RenameModel in the same evolution: the DatabaseState still tracks the unique index under the old table name',
 'rebuild_drops_field_check': 'after a SQLite table rebuild the CHECK ("col" >= 0) that Django declares for PositiveIntegerField columns is gone (build_column_schema does not emit the field check), so the evolved table accepts negative values that a freshly created one rejects',
 'exec_other': 'the generated SQL fails to execute: a merged rebuild re-creates a constraint that a later ChangeMeta in the same evolution had already removed, naming a column deleted in between ("expressions prohibited in PRIMARY KEY and UNIQUE constraints")',
 'index_bookkeeping': 'per-field index changes are lost or duplicated when they are merged into a rebuild started by another operation, follow a RenameModel, or meet an existing Meta index on the same column (stale MockModel / DatabaseState index bookkeeping): ChangeField(db_index=...) has no effect or unique indexes are left behind',
}
for r in v:
    kinds = set(k.split(':')[0] for k in r['diff_kinds'])
    if 'gen' in kinds:
        f = 'generator_crash'
    elif 'data' in kinds:
        f = 'merged_changefield_initial'
    elif 'exec' in kinds:
        f = 'exec_no_such_index' if 'no such index' in r['detail'] else 'exec_other'
    elif 'columns' in kinds or 'tables' in kinds:
        f = 'm2m_columns_after_rename_model'
    elif 'check_missing' in kinds and r['base'] == 'types':
        f = 'rebuild_drops_field_check'
    elif r.get('region') == 'c01_rebuild_drops_meta_indexes':
        f = 'rebuild_drops_meta'
    else:
        f = 'index_bookkeeping'
    fams.setdefault(f, {'sigs': set(), 'examples': []})
    fams[f]['sigs'].add(r['signature'])
    if len(fams[f]['examples']) < 3:
        fams[f]['examples'].append({'program': r['id'], 'mutations': r['muts'], 'detail': r['detail'][:300]})
d = json.load(open('/verif/known_findings.json'))
d['findings'] = [e for e in d['findings'] if not (e.get('property') == prop and e.get('engine') == 'E2')]
for f, x in fams.items():
    d['findings'].append({'property': prop, 'engine': 'E2', 'id': '%s-%s' % (prop.lower(), f),
                          'what': WHAT.get(f, f), 'witness_examples': x['examples'],
                          'signatures': sorted(x['sigs'])})
    print(f, len(x['sigs']))
json.dump(d, open('/verif/known_findings.json', 'w'), indent=1)
