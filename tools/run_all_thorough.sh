#!/bin/sh
cd /verif
for P in C01 C02 C07 C12 C16 C17 C18 C14 C15 C13 C11 C09 C03 C06 C05; do
  t0=$(date +%s)
  ./check $P thorough > /tmp/p/thorough_$P.out 2>&1; rc=$?
  t1=$(date +%s)
  echo "$P rc=$rc secs=$((t1-t0)) $(grep -c '^VIOLATION' /tmp/p/thorough_$P.out) violations, $(grep -c '^INCONCLUSIVE' /tmp/p/thorough_$P.out) inconclusive, $(grep -c '^HARNESS-ERROR' /tmp/p/thorough_$P.out) harness errors: $(tail -1 /tmp/p/thorough_$P.out | cut -c1-100)"
done
