NA['C04'] = 'quantifies over histories of Evolver runs through the ORM, app registry and migration executor; none of that code can be executed symbolically by CrossHair (measured) and it emits no artefact whose correctness is a formula, so solver-based checking does not apply (DESIGN.md section 6)'
NA['C08'] = 'same as C04: run histories through Evolver/ORM (Version, Evolution rows); deciding it would be enumeration of concrete runs, not a solver verdict (DESIGN.md section 6)'
NA['C10'] = 'same as C04: needs Django migration loader/executor/recorder end to end, untraceable and with only discrete scenario choices (DESIGN.md section 6)'

check('C09',
      'Bounded model checking of the real DependencyGraph code: CrossHair explores every path of add_node/add_dependency/finalize/get_ordered with the whole edge relation symbolic; exhaustive for all digraphs on <=4 nodes (quick); thorough adds a seeded sample of 96 of the 4096 twelve-bit classes of 5-node digraphs, each class exhaustively. Acyclic => order is a permutation honouring every edge; cyclic => exception. Plus get_evolution_dependencies as a kernel (declared AFTER/BEFORE lists merged with mutation-generated dependencies) and EvolutionGraph (add_evolutions, mark_evolutions_applied, iter_batches, get_evolution_dependencies, get_evolution_app_dependencies) over three fake apps with symbolic evolution counts, applied prefixes, one before/after declaration at evolution or app level and both registration orders: every pending evolution exactly once, sequence order and the declared requirement honoured.',
      'Trusted: CrossHair+z3, the Kahn oracle in harness/c09.py. Outside: signal order during a real evolve(), migrations in the graph (add_migration_plan) and Django migration planner, graphs beyond the bound. Fake app modules; importlib untraced.',
      'CrossHair symbolic execution (z3) of utils/graph.py, partitioned, counterexamples replayed concretely',
      design_ref='5.7')

check('C11',
      'Bounded model checking of the real simulate() code of RenameModel/RenameAppLabel/RenameField/DeleteField/DeleteModel/DeleteApplication: CrossHair explores every path over a 2-app/3-model project whose labels, names, relation structure and mutation parameters are symbolic choices from stated pools, for all sequences of length 1 and 2 (quick: two relation shapes; thorough: five shapes / all label pairs), and for RenameAppLabel with its optional legacy_app_label / model_names arguments (incl. a subset that leaves models behind under the old label); a reference identity model is the oracle. Plus free-string bug-hunting passes.',
      'Signature level only; foreign keys in a real database (PRAGMA foreign_key_check) are outside. Names come from finite pools (the code hashes them). Trusted: CrossHair+z3, the reference model in harness/c11.py.',
      'CrossHair symbolic execution (z3) of the mutations simulate() code, partitioned, counterexamples replayed concretely',
      design_ref='5.8')

check('C12',
      'Bounded model checking: (a) the real evolve command (handle/_add_tasks/_check_simulation/_perform_evolution) is executed symbolically over all combinations of the answers a stub Evolver can give and the command-line flags; evolve() is reached only when simulation yields exactly the target (or cannot be simulated), and an unreachable target always ends in CommandError; the residual is a real diff.py Diff of nine kinds (field attribute, extra/missing field, Meta, left-over model, left-over app, combinations). (b) simulate() rejection totality for the five named error classes and residual-diff detection for perturbed evolutions, with attribute values symbolic.',
      'Stub Evolver (its answers are symbolic flags); database untouchedness is implied only via "evolve() not called"; Evolver.__init__ baseline writing is outside; names come from finite pools. Trusted: CrossHair+z3, reference verdicts in harness/c12.py.',
      'CrossHair symbolic execution (z3) of management/commands/evolve.py and mutations simulate(), counterexamples replayed concretely',
      design_ref='5.9')

check('C17',
      'Bounded model checking of the real signal-emitting code (Evolver.evolve, EvolveAppTask.execute/_create_models/execute_tasks, MigrationExecutor._on_progress) with the work between signals stubbed and the failing step, task counts and batch shapes symbolic: evolving/evolved/evolving_failed pairing and the process-wide lock, applying/applied and creating/created pairing, batch-accurate payloads, signal order = batch order.',
      'Work between signals is stubbed (tasks, run_sql, apply_migrations, pre/post-sync emitters, signature saving); payload-vs-executed-SQL correspondence is outside. Trusted: CrossHair+z3, the expected-trace oracles in harness/c17.py.',
      'CrossHair symbolic execution (z3) of evolve/evolver.py, evolve/evolve_app_task.py, utils/migrations.py emission code with stubbed work, counterexamples replayed concretely',
      design_ref='5.14')

check('C07',
      'Bounded model checking of the real SQLExecutor against the real in-memory SQLite database: the crash index k (statement at which an injected OperationalError is raised) is the symbolic variable; for every k over hand-written and generator-produced statement lists the database equals its pre-image, the error names the failing statement, and a retry converges. Evolver.evolve() is additionally shown never to save the signature after a failing task, and EvolveAppTask.execute_tasks() to hand every failing step (incl. deferred SQL of new models) to its caller as an error.',
      'Executor + evolve() ordering kernel only: failures inside Django migration executor, multi-batch runs and non-SQLite back ends are outside; lists with explicit transaction groups are only checked for group atomicity. Trusted: CrossHair+z3, SQLite/Django as concrete environment.',
      'CrossHair symbolic execution (z3) of utils/sql.py SQLExecutor over a symbolic fault index against real SQLite; counterexamples replayed concretely',
      design_ref='5.6')

check('C18',
      'Merge-decision kernel: (a) z3 query over the mergeable_ops table and the dispatcher op types re-extracted with ast from db/common.py on every run (no pair of add/change/delete/meta op types may be rejected; no table entry may be unknown to the dispatcher); (b) bounded model checking of the real generate_table_ops_sql/_are_ops_mergeable over all op-type sequences of length <=4 with recording op builders: each maximal run of mergeable ops shares one AlterTableSQLResult; (c) the real AppMutator/ModelMutator/SQLite evolver rebuild each table at most once for any sequence of 2-3 mergeable mutations over two models.',
      'Per-op SQL builders and the AlterTableSQLResult class are recording stand-ins; rebuild counts on real SQL traces and the optimiser regrouping are not part of this claim (see C03 and the C01/C02 engine). Trusted: CrossHair+z3, ast extraction.',
      'z3 on the source-extracted mergeable_ops table + CrossHair symbolic execution (z3) of generate_table_ops_sql with symbolic op sequences',
      design_ref='5.15')

check('C16',
      'Routing-decision kernel: bounded model checking of BaseModelMutation.is_mutable (seven model-mutation classes), BaseEvolutionTask.is_mutation_mutable and DeleteApplication.simulate with the router lookup replaced by a symbolic routing table: a mutation is kept for database D iff its model is routed to D. Also: db_get_installable_models_for_app and AppSignature.from_app against the real django.db.router with a table-driven router (exactly the allowed, not yet installed models are created / recorded), and Evolver.__init__ on two real SQLite databases (baseline read from / installed on the evolved database only; 8 discrete scenarios). A genuine defect (router ignored when a database name is passed) is recorded as a known finding; everything outside its region is still exhausted.',
      'Decision kernels only: the SQL of a whole evolve() run landing on the right database and leaving the other untouched needs the untraceable Evolver pipeline end to end and is outside. Stubs: get_database_for_model_name (routing table); get_models/get_app_label/get_app_upgrade_info return three fixed model classes. Trusted: CrossHair+z3.',
      'CrossHair symbolic execution (z3) of is_mutable / mutation filtering with a symbolic routing table; known-finding region excluded by precondition',
      design_ref='5.13')

check('C05',
      'Bounded model checking of the real signature diff/eq/clone code and of diff -> hint -> simulate closure: FieldSignature (a == b) iff both diffs empty with attribute values symbolic; Model/App/Project signatures over unique_together, index_together, Meta.indexes, Meta.constraints (incl. reordered lists) and db_table_comment; hinted evolution from Diff.evolution() simulated on clone(old) leaves no residual difference, for fields changed in place / added / deleted, models deleted and Meta changes. Five genuine defects are recorded as known findings with region predicates (three more, in the ChangeField handling of relation targets and type changes, were repaired); everything outside the regions is exhausted.',
      'Stub: diff.get_model (field default is a symbolic flag/value). db_table/db_tablespace/pk_column changes are outside the input space. Signature level only (hints are simulated, not lowered to SQL). db_column values come from a 3-entry pool. Trusted: CrossHair+z3.',
      'CrossHair symbolic execution (z3) of signature.py diff/__eq__/clone, diff.py Diff.evolution and mutations simulate(); known-finding regions excluded inside the harness',
      design_ref='5.4')

check('C13',
      'Bounded model checking of serialize_to_python and EvolveAppTask.get_evolution_content: value shapes (containers, Q trees incl. XOR/negation/single-child nesting, F/Value/combined expressions, Deferrable, constraints, indexes) and mutation shapes are symbolic choices; the produced text is evaluated / exec\'d as an evolution module and compared with the original (type, deconstruction / Q normal form, re-rendered hint, simulate() effect). The NullFieldInitialCallback placeholder must render to text that refuses to run.',
      'Primitive contents come from finite pools (repr() realises them); "same generated SQL" is outside. The oracle (eval/exec + comparison) runs untraced. Trusted: CrossHair+z3, the Q normal form in harness/c13.py.',
      'CrossHair symbolic execution (z3) of serialization.py serialize_to_python and get_evolution_content over symbolic shape choices; counterexamples replayed concretely',
      design_ref='5.10')

check('C06',
      'Bounded model checking of the real storage path: a project signature built from symbolic shape choices (field attributes, together-lists as lists/tuples, indexes with ordering prefixes/conditions/expressions/include/opclasses/tablespace, unique and check constraints with conditions and deferrability, upgrade method, applied migrations, app ids) is written with SignatureField._dumps, parsed back with SignatureField.to_python (json + OrderedDict hook) and must be equal, Diff-empty both ways and re-serialise to identical text; v2->v1->v2 for the v1-expressible subset.',
      'Values come from finite pools; Version.save()/reload through the ORM and pickle-format v1 text are outside; field attrs are inserted in canonical order. One genuine defect (tuple-valued constraint attributes) is a known finding. Trusted: CrossHair+z3; equality/Diff of the results evaluated untraced.',
      'CrossHair symbolic execution (z3) of signature.py serialize/deserialize, serialization.py and SignatureField over symbolic shape choices; counterexamples replayed concretely',
      design_ref='5.5')

check('C01',
      'Translation validation of the SQL emitted by the real generator: for every enumerated program (5 base model sets (plain, unique_together+index_together, Meta indexes+constraints, custom names with M2M/OneToOne, Text/PositiveInteger/Decimal/BigInteger/DateTime types) x single mutations and ordered pairs of a 46-entry alphabet; thorough adds seeded random sequences of length 3-4) the emitted statements are executed on a real SQLite database, its catalog is introspected and compared with the catalog of the evolved models created from scratch by Django; z3 decides, over all contents of 2 symbolic rows per table, whether the two catalogs accept exactly the same contents (NOT NULL, PK, unique incl. partial, CHECK, FK). Structural parts (tables, columns, plain indexes, FK targets) are compared directly. The acceptance predicate itself is validated per program against real SQLite on four fixed contents (valid, duplicated, all-NULL, dangling/negative). Four families of genuine defects are known findings identified by (base, mutation kinds, difference kinds) signatures.',
      'The quantifier over programs is enumerated, only the quantifier over table contents is decided by the solver. SQLite only; AUTOINCREMENT, collations, type affinity and index names are not compared; the evolved models come from the reference semantics in vlib/dbprog.py. Trusted: z3, vlib/sqlsmt.py (guarded by replaying every sat model against real SQLite), SQLite PRAGMA introspection.',
      'z3 acceptance-equivalence of introspected catalogs of the evolved vs freshly created database; sat models replayed on real SQLite', category='translation_validation', design_ref='5.1')

check('C02',
      'Translation validation of the SQL emitted by the real generator: for every enumerated program the (statement, params) list is interpreted by vlib/sqlsmt.py over tables whose every cell is a z3 variable (value + NULL flag, 2 rows per table) and z3 decides whether any content makes a surviving column differ from its start value, an added column differ from its declared initial (NULL if none), a null->non-null change differ from coalesce(old, initial), a surviving table lose its rows, or a NULL reach a NOT NULL column. The expected cells are computed independently from the mutation list on model specs. Every sat model is replayed on real SQLite, and for every program with an unsat answer the translation itself is validated by pushing one fixed concrete database (NULLs in row 0, distinct values in row 1) through real SQLite and through the SMT interpretation (all final cells must agree; a disagreement makes the program unsupported).',
      'The quantifier over programs is enumerated; values are integers with strings mapped injectively (type conversions and parameter quoting are exercised only by the replay). Statements outside the modelled subset make the program "unsupported", never a violation. Trusted: z3, vlib/sqlsmt.py, the reference column tracking in vlib/e2.py.',
      'z3 over the SMT semantics of the emitted INSERT..SELECT/UPDATE/ALTER statements with symbolic table contents; sat models replayed on real SQLite', category='translation_validation', design_ref='5.2')

check('C03',
      'Bounded model checking of the optimiser (AppMutator._preprocess_mutations and its batch processing) over all valid sequences of two mutations (thorough: 120 kind patterns of three) from 9 kinds x 2 models x 2 fields x 3-4 new names with reuse: the optimised list simulates to the same final signature as one-at-a-time application, the evolution definitions are left untouched, and a second pass over the same objects gives the same result (thorough: also 12 kind patterns of four with name reuse). Schema and row-data equality of the batched vs the one-at-a-time run is decided by the E2 engine for enumerated pairs of mutations (real SQL both ways, z3 over symbolic contents). Known findings: RenameModel onto a just-freed name is reordered; batched index bookkeeping; regrouping across models; merged ChangeField initial.',
      'E1 part at signature level, E2 part enumerates programs (pairs); the Evolver task pipeline is outside. The optimiser runs traced; reference run and comparison run untraced on the concrete data of the path. Sequences with two identical hints are excluded. Trusted: CrossHair+z3.',
      'CrossHair symbolic execution (z3) of mutators/app_mutator.py optimiser over symbolic mutation sequences; counterexamples replayed concretely',
      design_ref='5.3')

check('C14',
      'Bounded model checking: SQLExecutor.run_sql previews exactly what it executes (statement lists of symbolic shape, recording cursor); previewed parameter substitution stores the same value as parametrised execution (real SQLite); change_meta_unique_together/index_together are independent of set iteration order (builtin set replaced by a stand-in whose order is a symbolic permutation).',
      'Partial: PYTHONHASHSEED itself is not a solver variable (set order is); preview-vs-execution SQL lists of the evolver are covered only through C03 assertion (4); the management-command text path is outside. One known finding (preview quoting of strings containing a quote). Trusted: CrossHair+z3.',
      'CrossHair symbolic execution (z3) of utils/sql.py run_sql and db/common.py change_meta_* with a permutation-ordered set stand-in',
      design_ref='5.11')

check('C15',
      'Bounded model checking of PurgeAppTask.prepare, DeleteApplication and DeleteModel through the real AppMutator/ModelMutator/MockModel/SQLite evolver over a two-app project whose labels, table names and M2M table names come from pools with prefix relations: exactly the named tables (and auto-created M2M tables) are dropped, exactly the named entries leave the signature, every other app is unchanged; purge tasks are queued iff --purge.',
      'Signature + DROP-set kernel: rows/tables of other apps in a real database are outside. One known finding (purge crashes when a model relates to an earlier model of the same app). Trusted: CrossHair+z3.',
      'CrossHair symbolic execution (z3) of evolve/purge_app_task.py, mutations/delete_*.py and the mutators over symbolic project layouts',
      design_ref='5.12')
