#!/bin/sh
# Validate MANIFEST.json and every evidence file against the schemas.
python3-vt - <<'PY'
import json, jsonschema, glob
jsonschema.validate(json.load(open('/verif/MANIFEST.json')), json.load(open('/root/.vp/MANIFEST.schema.json')))
s = json.load(open('/root/.vp/EVIDENCE.schema.json'))
for f in sorted(glob.glob('/verif/evidence/*.json')):
    jsonschema.validate(json.load(open(f)), s)
    print('valid', f)
print('manifest valid')
PY
