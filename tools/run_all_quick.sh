#!/bin/sh
# Regenerate every quick evidence file on the current tree, sequentially.
cd /verif
for P in C01 C02 C03 C05 C06 C07 C09 C11 C12 C13 C14 C15 C16 C17 C18; do
  t0=$(date +%s)
  ./check $P quick > /tmp/p/quick_$P.out 2>&1; rc=$?
  t1=$(date +%s)
  echo "$P rc=$rc secs=$((t1-t0)) $(grep -c '^VIOLATION' /tmp/p/quick_$P.out) violations, $(grep -c '^INCONCLUSIVE' /tmp/p/quick_$P.out) inconclusive, $(grep -c '^HARNESS-ERROR' /tmp/p/quick_$P.out) harness errors: $(tail -1 /tmp/p/quick_$P.out | cut -c1-100)"
done
