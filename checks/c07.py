import os
import subprocess
import sys

from vlib.runner import Obligation, run_check, PY, VERIF

FUNCS = ['utils/sql.py SQLExecutor.__enter__, __exit__, run_sql, _prepare_sql, _prepare_transaction_batches, new_transaction, ensure_transaction, finish_transaction',
         'django.db cursor wrappers + sqlite3 (concrete, real in-memory database)']


def n_generated():
    try:
        out = subprocess.check_output(
            [PY, '-c', 'import sys; sys.path.insert(0, "/verif"); import harness.c07 as h; print(len(h.GEN_LISTS))'],
            cwd=VERIF, env=dict(os.environ, PYTHONPATH=VERIF), stderr=subprocess.DEVNULL, timeout=300)
        return int(out.decode().strip().splitlines()[-1])
    except Exception:
        return 0


def run(tier):
    obs = [
        Obligation('fault', 'harness/c07.py', 'h_fault', partitions=[[0], [1], [2]], timeout=300,
                   what='SQLExecutor with a fault injected at statement k: schema and rows equal the snapshot taken before, the exception names statement k, no atomic block is left open, and a fault-free retry ends equal to an uninterrupted run',
                   bounds='3 statement-list shapes (DDL/DML mix, SQLite table rebuild, nested lists with params/comments/blanks), k = every statement index and "no fault"',
                   functions=FUNCS),
        Obligation('grouped', 'harness/c07.py', 'h_fault_grouped', timeout=300,
                   what='lists with explicit NewTransactionSQL groups: group atomicity (state after a fault = last group boundary), error names statement k',
                   bounds='1 list with 3 transaction groups, every k', functions=FUNCS),
        Obligation('two_calls', 'harness/c07.py', 'h_two_calls', timeout=300,
                   what='two run_sql() calls in one executor block (model creation then evolution SQL): a fault in either undoes both',
                   bounds='every k over the 6 statements', functions=FUNCS),
        Obligation('other_db', 'harness/c07.py', 'h_other_db', timeout=300,
                   what='same all-or-nothing property on a non-default database alias (the transaction must be opened on the executor\'s database)',
                   bounds='every k, alias "other"', functions=FUNCS),
        Obligation('evolve_no_save_on_failure', 'harness/c17.py', 'h_evolve', timeout=600,
                   what='Evolver.evolve(): if any task raises, _save_project_sig (the only writer of the version/evolution tables) is not called and evolver.evolved stays false',
                   bounds='0-2 tasks of each of 2 classes, failing step -1..4, save may fail',
                   functions=['evolve/evolver.py Evolver.evolve']),
        Obligation('create_models_error', 'harness/c17.py', 'h_create_models', timeout=300,
                   what='EvolveAppTask._create_models(): a failure while creating models reaches the caller as EvolutionExecutionError carrying the failing statement (last_sql_statement) and, for a single app, its label; no created_models is sent (same harness as C17 create_models)',
                   bounds='1-3 tasks x {ok, fail}', functions=['evolve/evolve_app_task.py EvolveAppTask._create_models']),
        Obligation('execute_tasks_error_propagates', 'harness/c17.py', 'h_execute_tasks', timeout=600,
                   partitions=[[b0, b1] for b0 in range(1, 5) for b1 in range(0, 5) if not (b0 == 4 and b1 == 4)],
                   what='EvolveAppTask.execute_tasks(): a failure at any step (evolution SQL, model creation, migration, deferred SQL of new models) reaches the caller as EvolutionExecutionError and no later work runs, so Evolver.evolve() never goes on to save the signature (same harness as C17 execute_tasks; here the clause used is error <=> failed step and the work trace stops there)',
                   bounds='up to 3 batches of 5 kinds, failing step -1..6, stubbed SQL/migration work',
                   functions=['evolve/evolve_app_task.py EvolveAppTask.execute_tasks, execute, _create_models, _apply_deferred_sql']),
    ]
    ng = n_generated()
    if ng:
        obs.insert(1, Obligation('fault_generated', 'harness/c07.py', 'h_fault_generated',
                                 partitions=[[i] for i in range(ng)], timeout=600,
                                 what='same oracle on statement lists emitted by the real generators at import (table rebuilds with index restore, M2M table creation, model creation + deferred SQL)',
                                 bounds='%d generated lists, every k up to the list length' % ng, functions=FUNCS + ['vlib/dbprog.py (concrete generation through AppMutator/sql_create_models)']))
    return run_check('C07', obs, tier, level='model_checking',
                     assumptions=['SQLite with transactional DDL; faults are OperationalError raised by an execute_wrapper before the k-th counted statement (SELECT/PRAGMA/SAVEPOINT/RELEASE/ROLLBACK are not counted)',
                                  'lists with explicit NewTransactionSQL/NoTransactionSQL groups are multi-transaction by construction; only group atomicity is checked for them',
                                  'failures inside the Django migration executor and multi-batch runs (one executor block per batch) are outside'],
                     trusted_base=['CrossHair 0.0.110', 'z3 5.1.0', 'vlib/ch_patch.py', 'SQLite 3.40 + Django 4.2 as concrete environment'])
