from vlib.runner import Obligation, run_check

SER = ['serialization.py serialize_to_python, _get_serializer_for_value, Primitive/String/List/Tuple/Dict/Class/Enum/Deconstructed/CombinedExpression/Q Serialization.serialize_to_python']


def run(tier):
    obs = [
        Obligation('py_primitives', 'harness/c13.py', 'h_py_primitives', timeout=300,
                   partitions=[[c, k] for c in range(7) for k in range(5)],
                   what='eval(serialize_to_python(v)) == v (same type) for str/int/bool/None/class values alone and in list, tuple, dict, OrderedDict, list of tuples, dict of lists (0-2 elements)',
                   bounds='7 container shapes x 5 leaf kinds^2 x pools (10 strings incl. quotes, backslash, newline, non-ASCII, %s, {}; 4 ints incl. 2^63-1; 4 classes)',
                   functions=SER),
        Obligation('py_q', 'harness/c13.py', 'h_py_q', timeout=(400 if tier == 'quick' else 900),
                   partitions=[[c, n] for c in range(3) for n in range(3)],
                   what='Q trees of depth <= 2 (AND/OR/XOR, negation at both levels, 0-2 children, lookups or nested Q incl. single-child nesting): the rendered text evaluates to a Q with the same normal form',
                   bounds='3 connectors x neg x 0-2 children (lookup|nested) x inner 3 connectors x neg x 1-2 lookups; lookup values from {str, int} pools of 2-3',
                   functions=SER),
        Obligation('py_expr', 'harness/c13.py', 'h_py_expr', timeout=300, partitions=[[k] for k in range(12)],
                   what='F, Value, combined expressions, Deferrable, UniqueConstraint, Index with condition: rendered text evaluates to an object with equal deconstruction; bare and inside the dict/list shapes ChangeMeta uses',
                   bounds='12 kinds (incl. nested combined expressions needing grouping, sets) x pools x 4 field names x 3 wrappers', functions=SER),
        Obligation('content', 'harness/c13.py', 'h_content', timeout=(400 if tier == 'quick' else 900), partitions=[[k] for k in range(18)],
                   what='get_evolution_content() text exec()s in a fresh namespace and defines MUTATIONS of equal type and equal re-rendered hint; single mutations also have equal simulate() effect on a base signature',
                   bounds='18 mutation shapes (AddField x5 and ChangeField x4 incl. project-defined field classes from two modules, one under a path containing .db.models; formerly listed: AddField x4, ChangeField x3, DeleteField, RenameField, ChangeMeta x5, RenameModel, DeleteModel) alone and in all ordered pairs, string/int payloads from the pools',
                   functions=['evolve/evolve_app_task.py EvolveAppTask.get_evolution_content', 'mutations/*.py get_hint_params, generate_hint, __str__'] + SER),
        Obligation('placeholder', 'harness/c13.py', 'h_placeholder', timeout=120,
                   what='NullFieldInitialCallback renders as <<USER VALUE REQUIRED>>, the text does not compile, the placeholder object raises EvolutionException when called',
                   bounds='AddField and ChangeField', functions=['placeholders.py', 'serialization.py PlaceholderSerialization']),
    ]
    return run_check('C13', obs, tier,
                     assumptions=['primitive contents come from finite pools selected by symbolic index (repr() realises them); nothing is claimed for other contents',
                                  'the produced text is evaluated/exec\'d and compared outside tracing (oracle), the serializers run traced',
                                  '"same generated SQL" is outside (SQL generation is untraceable); equality of type, hint text and simulate() effect is what is decided'],
                     trusted_base=['CrossHair 0.0.110', 'z3 5.1.0', 'vlib/ch_patch.py', 'Q normal form and deconstruct-based equality in harness/c13.py'])
