import itertools
from vlib.runner import Obligation, run_check

SIG = ['signature.py FieldSignature/ModelSignature/AppSignature/ProjectSignature .diff, .__eq__, .clone',
       'signature.py IndexSignature/ConstraintSignature .__eq__, .__hash__, .clone']
CLOS = ['diff.py Diff.__init__, is_empty, evolution, _get_initial_value', 'mutations/*.py simulate()',
        'mutations/base.py Simulation, BaseMutation.run_simulation'] + SIG

PAIR_MASKS = [3, 5, 9, 17, 6, 10, 18, 12, 20, 24]      # all pairs of {null, max_length, db_index, unique, db_column}
QUICK_TYPES0 = [(0, 0), (1, 1), (4, 4), (5, 5), (0, 1), (1, 0), (4, 5), (3, 3)]


def closure_partitions(tier):
    parts = []
    if tier == 'quick':
        for (a, b) in [(0, 0), (1, 1), (4, 4)]:
            for m in (3, 5, 24, 18):
                parts.append([0, a, b, m])
        for m in (5, 24):       # type change: max_length stays out (field construction with a symbolic max_length is too slow for the quick tier)
            parts.append([0, 0, 1, m])
        for (a, b) in [(4, 5), (5, 4), (1, 4), (4, 1)]:     # re-typing between / into / out of relation types
            parts.append([0, a, b, 1])
        for t in (0, 1, 4, 5):
            for m in (3, 24):
                parts.append([1, t, t, m])
        for t in (0, 4, 5):
            parts.append([1, t, t, 4])          # db_index alone (its default differs for relations)
        for t in (0, 4, 5):
            parts.append([2, t, t, 7])
        parts.append([3, 0, 0, 7])
    else:
        for a in range(6):
            for b in range(6):
                parts.append([0, a, b, 31])
        for t in range(6):
            parts.append([1, t, t, 31])
            parts.append([2, t, t, 31])
            parts.append([3, t, t, 31])
    return parts


def run(tier):
    nk = 6 if tier == 'thorough' else 5     # index kinds in eq_indexes
    obs = [
        Obligation('field_eq_diff', 'harness/c05.py', 'h_field_eq_diff',
                   partitions=[[t, m] for t in range(6) for m in ((3, 5, 17, 6, 18, 20) if tier == 'quick' else (31,))],
                   timeout=(240 if tier == 'quick' else 600),
                   what='FieldSignature: (a == b) iff a.diff(b) and b.diff(a) are empty; a == a.clone() with empty diff',
                   bounds='6 field types, relation target in 2 models, null/max_length/db_index/db_column absent or stated on either side with symbolic values (bool, int, str); quick: attributes two at a time, thorough: all four together',
                   functions=SIG[:1]),
        Obligation('eq_togethers', 'harness/c05.py', 'h_eq_togethers',
                   partitions=[[a, b] for a in range(6) for b in range(6)], timeout=(240 if tier == 'quick' else 600),
                   what='Model/App/Project signature: == iff diff empty both ways; Diff(s, s) and Diff(s, clone) empty',
                   bounds='unique_together x index_together from 6 values each side (incl. reordered and overlapping tuples)',
                   functions=SIG),
        Obligation('eq_indexes', 'harness/c05.py', 'h_eq_indexes',
                   partitions=[[a, b] for a in range(nk) for b in range(nk)], timeout=(240 if tier == 'quick' else 600),
                   what='same, Meta.indexes: two slots per side from 6 index kinds (named/unnamed, ordering prefix, attrs, expression index with a condition) with optional reordering',
                   bounds='5^4 x 2^2 index-list pairs', functions=SIG),
        Obligation('eq_constraints', 'harness/c05.py', 'h_eq_constraints',
                   partitions=[[a, b] for a in range(3) for b in range(3)], timeout=(240 if tier == 'quick' else 600),
                   what='same, Meta.constraints (two slots per side, reordering) and db_table_comment',
                   bounds='3^4 x 2^2 constraint-list pairs; comments from {None, "", x, y}', functions=SIG),
        Obligation('closure_field', 'harness/c05.py', 'h_closure_field', partitions=closure_partitions(tier),
                   timeout=(240 if tier == 'quick' else 600),
                   what='Diff(old, new).evolution() simulated on clone(old) leaves no residual difference from new (either direction), for one field changed in place / added / deleted / model deleted',
                   bounds=('quick: 4 (old type, new type) pairs for in-place change, 4 types added, 3 deleted; attributes varied two at a time (pairs null+max_length, null+db_index, unique+db_column, max_length+db_column), values symbolic; default of the model field symbolic'
                           if tier == 'quick' else 'thorough: all 36 type pairs, all five attributes together'),
                   functions=CLOS),
        Obligation('closure_togethers', 'harness/c05.py', 'h_closure_togethers',
                   partitions=[[a, b] for a in range(6) for b in range(6)], timeout=(240 if tier == 'quick' else 600),
                   what='hint closure for unique_together / index_together changes',
                   bounds='6^4 (old, new) value combinations', functions=CLOS),
        Obligation('closure_indexes', 'harness/c05.py', 'h_closure_indexes',
                   partitions=[[a, b] for a in range(6) for b in range(6)], timeout=(240 if tier == 'quick' else 600),
                   what='hint closure for Meta.indexes and Meta.constraints changes',
                   bounds='indexes: 6^4 x 2 (old two slots, new two slots, reordered; 6 kinds incl. an expression index with a condition); constraints: 3^3 x 2', functions=CLOS),
        Obligation('closure_meta_mix', 'harness/c05.py', 'h_closure_meta_mix',
                   partitions=[[a, b] for a in range(3) for b in range(3)], timeout=(240 if tier == 'quick' else 600),
                   what='hint closure when unique_together, index_together, indexes and constraints of one model change in the same diff',
                   bounds='2^4 togethers x 3^2 one index slot x 3^2 one constraint slot (db_table_comment: not changeable on SQLite, outside)', functions=CLOS),
    ]
    return run_check('C05', obs, tier,
                     assumptions=['diff.get_model (initial-value lookup on the live model) is stubbed: the field has/has no default as a symbolic flag says, default value symbolic',
                                  'db_table / db_tablespace / pk_column changes are outside the property\'s input space (diff() does not track them)',
                                  'signature level only: hinted evolutions are simulated, not lowered to SQL'],
                     trusted_base=['CrossHair 0.0.110', 'z3 5.1.0', 'vlib/ch_patch.py'])
