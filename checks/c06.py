from vlib.runner import Obligation, run_check

F = ['models.py SignatureField._dumps, to_python', 'signature.py Project/App/Model/Field/Index/Constraint Signature serialize, deserialize, __eq__, diff',
     'serialization.py serialize_to_signature, deserialize_from_signature, _get_serializer_for_value, Q/Deconstructed/Enum/Dict/List/Tuple Serialization',
     'diff.py Diff.__init__, is_empty']


def field_parts(tier):
    if tier == 'quick':
        out = []
        for t in range(7):
            for m in (3, 12, 17):
                out.append([t, m])
        out += [[3, 32 + 2], [5, 64 + 4], [5, 64 + 1]]
        return out
    return [[t, 127] for t in range(7)]


def run(tier):
    obs = [
        Obligation('field', 'harness/c06.py', 'h_field', partitions=field_parts(tier), timeout=(400 if tier == 'quick' else 600),
                   what='a project signature with one field goes through SignatureField._dumps -> json text -> to_python: loaded == original, Diff empty both ways, re-serialised text identical',
                   bounds='7 field types; attributes absent/stated (quick: two at a time) with values from pools (False/True, 0/1/255/2^31, strings with quotes, non-ASCII, %s, empty)',
                   functions=F),
        Obligation('togethers', 'harness/c06.py', 'h_togethers', partitions=[[a, b] for a in range(3) for b in range(3)], timeout=(400 if tier == 'quick' else 600),
                   what='unique_together / index_together as lists or tuples at both levels, applied flag, db_table_comment, db_tablespace',
                   bounds='0-2 entries each, 2^4 list/tuple choices, 4 comments, 3 tablespaces', functions=F),
        Obligation('index', 'harness/c06.py', 'h_index', partitions=[[c, e, (1 if tier == 'quick' else 3)] for c in range(7 if tier == 'quick' else 13) for e in range(4)], timeout=(400 if tier == 'quick' else 600),
                   what='Meta.indexes: name/none, ordering prefixes, fields list/tuple, condition Q trees (nested, negated, OR, XOR), include list/tuple, opclasses, tablespace, expressions (F, F+Value, F.desc())',
                   bounds='7 (thorough: 13) condition shapes x 6 lookup values x 4 expression shapes x field/include/opclass/tablespace choices', functions=F),
        Obligation('constraint', 'harness/c06.py', 'h_constraint', partitions=[[k, c] for k in range(2) for c in range(13) if not (k == 1 and c == 0)], timeout=(400 if tier == 'quick' else 600),
                   what='Meta.constraints: UniqueConstraint (fields list/tuple, condition, deferrable, include) and CheckConstraint (check Q tree), one or two constraints',
                   bounds='2 kinds x 13 condition shapes (flat, OR, negated, nested, XOR, plain nested single/same-connector children, negated OR nodes top-level and nested) x 6 values x deferrable/include choices', functions=F),
        Obligation('app', 'harness/c06.py', 'h_app', timeout=600,
                   what='upgrade method, applied-migration sets, legacy app label, non-ASCII/dotted app ids, two apps with a cross-app relation, app without models',
                   bounds='3 upgrade methods x 0-2 migrations x 3 legacy labels x 3 app ids x 2 x 2', functions=F),
        Obligation('v1', 'harness/c06.py', 'h_v1', partitions=[[t] for t in range(7)], timeout=(400 if tier == 'quick' else 600),
                   what='v2 -> v1 dict -> v2 for the v1-expressible subset: equal signature, empty Diff, equal v2 serialisation',
                   bounds='7 field types x null/max_length x 0-2 together entries x named/unnamed index', functions=F[1:]),
    ]
    return run_check('C06', obs, tier,
                     assumptions=['field attrs are inserted in the canonical order FieldSignature.from_field uses (JSON preserves insertion order and the stored text is compared byte for byte)',
                                  'values come from finite pools; json (C module) runs on the realised value of the path',
                                  'Version.save()/reload through the ORM and pickle-format v1 text are outside'],
                     trusted_base=['CrossHair 0.0.110', 'z3 5.1.0', 'vlib/ch_patch.py'])
