from vlib.runner import Obligation, run_check

F = ['utils/sql.py SQLExecutor.run_sql, _prepare_sql, _prepare_transaction_batches', 'db/common.py quote_sql_param, normalize_value']


def run(tier):
    obs = [
        Obligation('preview_equals_execute', 'harness/c14.py', 'h_preview_equals_execute', timeout=400,
                   partitions=[[a, b] for a in range(8) for b in range(8)],
                   what='run_sql(capture=True) minus transaction comments equals, in order, "statement % quoted params" of what run_sql(execute=True) hands to the cursor',
                   bounds='statement lists of 1-3 entries from 8 shapes (plain, with params, comment, blank, nested list, NewTransactionSQL group, callable, repeated param); parameter from pools of 4 ints / 6 strings / 2 bools',
                   functions=F),
        Obligation('preview_values', 'harness/c14.py', 'h_preview_values', timeout=300,
                   what='the previewed INSERT run as plain SQL stores the same value as the parametrised execution (real SQLite)',
                   bounds='4 ints, 6 strings (quote, double quote, percent, backslash, empty)', functions=F),
        Obligation('set_order', 'harness/c14.py', 'h_set_order', timeout=400,
                   partitions=[[f, o] for f in range(3) for o in range(5)],
                   what='change_meta_unique_together / change_meta_index_together / change_meta_indexes emit the same statements for every iteration order of the sets they build (builtin set replaced by a permutation-ordered stand-in)',
                   bounds='3 functions x 5 old x 5 new together-lists / Meta.indexes lists (0-3 entries) x 6 permutations',
                   functions=['db/common.py change_meta_unique_together, change_meta_index_together, change_meta_indexes, get_fields_for_names, create_unique_index', 'db/state.py DatabaseState.find_index/add_index/remove_index', 'mock_models.py MockModel']),
        Obligation('state_clone', 'harness/c14.py', 'h_state_clone', timeout=400,
                   partitions=[[op, ot, oi] for op in range(4) for ot in range(2) for oi in range(3)],
                   what='DatabaseState.clone() (the state the preview SQL of EvolveAppTask.prepare is generated against) is equal to and independent of the original (the state the execution SQL is generated against): adding/removing a plain or unique index, clearing a table\'s indexes or adding a table on either one never shows in the other',
                   bounds='1-2 tables, 1-2 starting indexes from 3 names x plain/unique, one operation of {add_index, remove_index, clear_indexes, add_table} x 2 tables x 3 names x plain/unique, applied to the clone or to the original',
                   functions=['db/state.py DatabaseState.clone, add_table, add_index, remove_index, clear_indexes, get_index, iter_indexes']),
    ]
    return run_check('C14', obs, tier,
                     assumptions=['PermSet replaces the name `set` as looked up from django_evolution.db.common; PYTHONHASHSEED itself is process configuration and not a solver variable',
                                  'preview (prepare()) vs execution (_build_batches()) use the same mutation objects: their equality is C03 assertion (4); the management-command text path is outside',
                                  'a recording cursor stands in for the database in preview_equals_execute'],
                     trusted_base=['CrossHair 0.0.110', 'z3 5.1.0', 'vlib/ch_patch.py'])
