from vlib.runner import Obligation, run_check

F = ['evolve/purge_app_task.py PurgeAppTask.prepare', 'mutations/delete_application.py DeleteApplication.simulate/mutate',
     'mutations/delete_model.py DeleteModel.simulate/mutate', 'mutators/app_mutator.py, model_mutator.py', 'mock_models.py MockModel, create_field',
     'db/common.py delete_table']
LP = [[a, b] for a in range(3) for b in range(3) if a != b]


def run(tier):
    obs = [
        Obligation('purge', 'harness/c15.py', 'h_purge', partitions=LP, timeout=500,
                   what='PurgeAppTask.prepare: the emitted statements are exactly DROP TABLE of the named app\'s model tables and auto-created M2M tables; the app\'s entries leave the signature; the other app serialises as before; when the app a relation points into was already purged from the signature, the purge is refused (MissingSignatureError) or still exact, never partial',
                   bounds='2 apps with labels from {t, ta, tab}; model table default or custom (5 names: colliding with defaults of others, and one a prefix of another), M2M table default or custom from the same names, cross-app FK or not, holder defined before/after its target, either app purged, other app present or already purged',
                   functions=F),
        Obligation('delete_model', 'harness/c15.py', 'h_delete_model', partitions=LP, timeout=500,
                   what='DeleteModel through AppMutator: DROP TABLE of the model table and its M2M tables only; every other model signature unchanged',
                   bounds='same project space x each of the 4 models', functions=F),
        Obligation('delete_app_sim', 'harness/c15.py', 'h_delete_app_sim', timeout=500,
                   what='DeleteApplication.simulate removes exactly the named app\'s models', bounds='same project space x either app',
                   functions=F[1:2]),
        Obligation('purge_iff_requested', 'harness/c12.py', 'h_gate', timeout=600,
                   what='evolve command: queue_purge_old_apps() is called iff --purge (stub Evolver)', bounds='all flag combinations',
                   functions=['management/commands/evolve.py Command._add_tasks']),
    ]
    obs.append(Obligation('stale_apps', 'harness/c15.py', 'h_stale_apps', partitions=[[a, b] for a in range(4) for b in range(4)], timeout=300, twin_partition=[2, 0],
                          what='which stored apps are stale (Diff.deleted, what queue_purge_old_apps purges): exactly those installed neither under their stored label nor under a new label whose legacy_app_label is the stored one; ignored without --purge (is_empty(ignore_apps=True)); purging them leaves exactly the other apps',
                          bounds='2 stored apps with labels from a pool with prefix relations x 4 fates each (installed, renamed with legacy label, gone, gone while a look-alike label appears) x extra new app x purge',
                          functions=['signature.py ProjectSignature.diff, get_app_sig', 'diff.py Diff.__init__, is_empty', 'evolve/purge_app_task.py PurgeAppTask.prepare']))
    return run_check('C15', obs, tier,
                     assumptions=['signature + DROP-set kernel: rows and tables of other apps in a real database are outside',
                                  'stub evolver object carrying project_sig/database_state/database_name for PurgeAppTask',
                                  'names from pools with prefix relations; projects whose table names collide are skipped as invalid'],
                     trusted_base=['CrossHair 0.0.110', 'z3 5.1.0', 'vlib/ch_patch.py'])
