from vlib import boot  # noqa
from vlib import e2run


def run(tier):
    return e2run.run('C01', tier)
