from vlib.runner import Obligation, run_check
from vlib import boot  # noqa
from vlib import e2run

F = ['mutators/app_mutator.py AppMutator._preprocess_mutations, _create_mutation_batches, _process_mutation_batch, _copy_change_attrs',
     'mutations/*.py simulate()', 'signature.py', 'diff.py Diff']
K = range(9)


def run(tier):
    obs = [
        Obligation('seq2', 'harness/c03.py', 'h_seq2', partitions=[[a, b] for a in K for b in K], timeout=(500 if tier == 'quick' else 1200),
                   what='every valid sequence of two mutations: the optimised list simulates without failure to the same final signature (serialize + Diff both ways) as one-at-a-time application; the mutation objects are unchanged; a second optimiser pass over the same objects gives the same result',
                   bounds='9 kinds (AddField, ChangeField max_length, ChangeField null=False+initial, DeleteField, RenameField, ChangeMeta unique_together, RenameModel, DeleteModel, SQLMutation barrier) x 2 models x 2 fields x new names g,h,i / A..D (with reuse); max_length 1..255, initial any int, null flag symbolic',
                   functions=F),
    ]
    if tier == 'thorough':
        import itertools
        pats = [[a, b, c] for a in (0, 1, 3, 4, 6) for b in (0, 1, 2, 3, 4, 6) for c in (1, 3, 4, 7)]
        obs.append(Obligation('seq3', 'harness/c03.py', 'h_seq3', partitions=pats, timeout=900,
                              what='same for sequences of three mutations (kind patterns with adds, renames, changes, deletes)',
                              bounds='120 kind triples over the same pools', functions=F))
    follow = [[a, b, c] for a in ((4,) if tier == 'quick' else (0, 4)) for b in (1, 2, 4) for c in (1, 2, 3, 4, 5)]
    obs.append(Obligation('seq3_follow', 'harness/c03.py', 'h_seq3_follow', partitions=follow, timeout=(500 if tier == 'quick' else 1200),
                          what='sequences of three mutations on one model where later steps may address a field under the name an earlier rename/add gave it (rename chains followed by change, delete, rename or unique_together)',
                          bounds='%d kind triples (first a rename%s, then change/rename, then change/delete/rename/unique_together) x any of 4 field names per step x new names g,h,i' % (len(follow), '' if tier == 'quick' else ' or an add'), functions=F))
    pats4 = [[a, 4, 0, d] for a in (1, 2, 3) for d in (1, 2, 3)] + [[4, 4, 3, 1], [1, 4, 4, 3], [0, 4, 0, 3]]
    if tier == 'thorough':
        obs.append(Obligation('seq4', 'harness/c03.py', 'h_seq4', partitions=pats4, timeout=1200,
                              what='sequences of four mutations on one model for kind patterns with name reuse (change or delete, rename away, add again, change/delete)',
                              bounds='12 kind patterns x 2 models x 2 fields x new names g,h,i', functions=F))
    pre, e2cov = e2run.run_c03(tier)
    return run_check('C03', obs, tier, pre_violations=pre, extra_coverage={'e2_batched_vs_single': e2cov},
                     assumptions=['E1 obligations are at signature level; equality of database schema and row data between the optimised and the one-at-a-time run is decided by the E2 engine for enumerated pairs of mutations (real SQL generation both ways, catalogs introspected from real SQLite, z3 over symbolic table contents for acceptance and for the final cells); the full Evolver task pipeline is outside',
                                  'sequences with two mutations rendering to the same hint text are excluded (CrossHair models set() by equality, BaseMutation hashes by identity)',
                                  'well-formedness is evaluated dynamically on the evolving signature: a rename/add never targets a name in use at that point'],
                     trusted_base=['CrossHair 0.0.110', 'z3 5.1.0', 'vlib/ch_patch.py'])
