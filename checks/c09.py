import itertools
from vlib.runner import Obligation, run_check

FUNCS_A = ['utils/graph.py: DependencyGraph.add_node, add_dependency, finalize, get_leaf_nodes, get_ordered, Node']


def run(tier):
    obs = [
        Obligation('order3', 'harness/c09.py', 'h_order3', timeout=120,
                   what='all 64 digraphs on 3 nodes: acyclic => permutation honouring every dependency; cyclic => exception',
                   bounds='n=3, all 2^6 edge relations', functions=FUNCS_A),
        Obligation('order4', 'harness/c09.py', 'h_order4', timeout=600,
                   partitions=[list(p) for p in itertools.product([False, True], repeat=4)],
                   what='all 4096 digraphs on 4 nodes',
                   bounds='n=4, all 2^12 edge relations, 16 partitions on the first 4 edge bits', functions=FUNCS_A),
    ]
    return run_check('C09', obs, tier,
                     assumptions=['node keys are the fixed strings n0..n3 inserted in index order (any insertion order is a relabelling of some enumerated graph)'],
                     trusted_base=['CrossHair 0.0.110', 'z3 5.1.0', 'vlib/ch_patch.py', 'oracle _acyclic/_order_ok in harness/c09.py'])
