import itertools
from vlib.runner import Obligation, run_check

FUNCS_A = ['utils/graph.py: DependencyGraph.add_node, add_dependency, finalize, get_leaf_nodes, get_ordered, Node']


def run(tier):
    obs = [
        Obligation('order3', 'harness/c09.py', 'h_order3', timeout=120,
                   what='all 64 digraphs on 3 nodes: acyclic => permutation honouring every dependency; cyclic => exception',
                   bounds='n=3, all 2^6 edge relations', functions=FUNCS_A),
        Obligation('order4', 'harness/c09.py', 'h_order4', timeout=600,
                   partitions=[list(p) for p in itertools.product([False, True], repeat=4)],
                   what='all 4096 digraphs on 4 nodes',
                   bounds='n=4, all 2^12 edge relations, 16 partitions on the first 4 edge bits', functions=FUNCS_A),
    ]
    if tier == 'thorough':
        import os, random
        rnd = random.Random(int(os.environ.get('VERIF_SEED', '0')))
        allp = [list(p) for p in itertools.product([False, True], repeat=12)]
        sample = rnd.sample(allp, 96)
        obs.append(Obligation('order5', 'harness/c09.py', 'h_order5', timeout=600, partitions=sample,
                              what='digraphs on 5 nodes: 96 of the 4096 classes given by the first 12 edge bits (sample seeded by VERIF_SEED), each class exhaustively over the remaining 8 bits',
                              bounds='n=5; 96 x 256 = 24576 of the 2^20 edge relations; the other classes are outside this run',
                              functions=FUNCS_A))
    gparts = [[0, 0, 0]] + [[k, l, f] for k in range(1, 5) for l in range(2)
                            for f in (range(3) if tier == 'thorough' else range(1))]
    obs.append(Obligation('evolution_graph', 'harness/c09.py', 'h_evolution_graph', partitions=gparts, timeout=600,
                          twin_partition=[1, 0, 0],
                          what='EvolutionGraph over three fake apps: sequence order inside an app, one declared AFTER/BEFORE_EVOLUTIONS requirement at evolution or app level targeting an evolution or a whole app, both registration orders, already-applied prefixes: every pending evolution exactly once, requirements between pending units honoured, requirements on applied units ignored',
                          bounds='3 apps x 0-2 evolutions x applied prefix 0..n x 4 dependency kinds x 2 levels x source/target app and label x 2 registration orders',
                          functions=['utils/graph.py EvolutionGraph.add_evolutions, mark_evolutions_applied, iter_batches, _add_evolution*, DependencyGraph.*',
                                     'utils/evolutions.py get_evolution_dependencies, get_evolution_app_dependencies, get_evolution_module(s)']))
    obs.append(Obligation('graph_models', 'harness/c09.py', 'h_graph_models', timeout=600,
                          partitions=[[k, a, b] for k in range(5) for a in range(3) for b in range(3) if a != b and (k or (a == 0 and b == 1))],
                          twin_partition=[2, 0, 1],
                          what='EvolutionGraph with apps that have models to create (with or without pending evolutions): every pending unit exactly once, create-model before the app\'s evolutions, an app-level AFTER_/BEFORE_EVOLUTIONS declaration binds all units of the declaring app (also when only a model creation is pending), both registration orders, already-applied evolutions',
                          bounds='3 apps x 0-1 evolutions x applied or not x new model or not x 5 declaration kinds (app level) x all ordered app pairs x 2 registration orders',
                          functions=['utils/graph.py EvolutionGraph.add_evolutions, _add_create_model, _add_evolution_node_after_deps/_before_deps, mark_evolutions_applied, iter_batches']))
    obs.append(Obligation('evolution_deps', 'harness/c09.py', 'h_evolution_deps', timeout=400,
                          what='get_evolution_dependencies returns the union of the declared AFTER/BEFORE_EVOLUTIONS/MIGRATIONS of an evolution (module attributes or custom-evolution entry) and the dependencies its mutations generate (MoveToDjangoMigrations)',
                          bounds='all 2^4 combinations of declared lists x {no, default, two-migration} MoveToDjangoMigrations x {module, custom evolution}',
                          functions=['utils/evolutions.py get_evolution_dependencies', 'mutations/move_to_django_migrations.py generate_dependencies']))
    return run_check('C09', obs, tier,
                     assumptions=['fake app modules (sys.modules entries vfa0..2 with evolutions packages); get_app_label/get_app_name answer from them; importlib runs untraced; migrations are not part of the graph harness', 'node keys are the fixed strings n0..n3 inserted in index order (any insertion order is a relabelling of some enumerated graph)'],
                     trusted_base=['CrossHair 0.0.110', 'z3 5.1.0', 'vlib/ch_patch.py', 'oracle _acyclic/_order_ok in harness/c09.py'])
