from vlib.runner import Obligation, run_check

FUNCS = ['mutations/rename_model.py RenameModel.simulate', 'mutations/rename_app_label.py RenameAppLabel.simulate',
         'mutations/rename_field.py RenameField.simulate', 'mutations/delete_field.py DeleteField.simulate',
         'mutations/delete_model.py DeleteModel.simulate', 'mutations/delete_application.py DeleteApplication.simulate',
         'mutations/base.py Simulation.*, BaseMutation.run_simulation', 'signature.py (Project/App/Model/Field signatures)']
KX = [(0, 0), (0, 1), (0, 2), (1, 0), (1, 1), (2, 0), (2, 1), (2, 2), (3, 0), (3, 1), (3, 2),
      (4, 0), (4, 1), (4, 2), (5, 0), (5, 1)]
LABEL_PAIRS = [(a, b) for a in range(3) for b in range(3) if a != b]


def run(tier):
    shapes1 = [0, 3, 4] if tier == 'quick' else [0, 1, 2, 3, 4]
    p1 = [[s, k, x] for s in shapes1 for (k, x) in KX]
    if tier == 'quick':
        p2 = [[0, k1, k2, 0, 2, 0] for k1 in range(6) for k2 in range(6)]
    else:
        p2 = [[0, k1, k2, a, b, n2] for k1 in range(6) for k2 in range(6)
              for (a, b) in LABEL_PAIRS for n2 in range(3)]
        p2 += [[2, k1, k2, 0, 2, n2] for k1 in range(6) for k2 in range(6) for n2 in range(3)]
    obs = [
        Obligation('seq1', 'harness/c11.py', 'h_seq1', partitions=p1, timeout=(400 if tier == 'quick' else 900),
                   what='one mutation of {RenameModel, RenameAppLabel, RenameField, DeleteField, DeleteModel, DeleteApplication} on a 2-app/3-model project: every relation names its target identity under the current app label and model name and resolves unless the target was deleted',
                   bounds='relation shapes %s of harness/c11.py SHAPES; app labels: all ordered pairs from %s; model names: all (n0!=n1, n2) from %s; every mutation target and every new name from the pools' % (shapes1, "['T','Tx','a']", "['Tx','TxY','a']"),
                   functions=FUNCS),
        Obligation('seq2', 'harness/c11.py', 'h_seq2', partitions=p2, timeout=(400 if tier == 'quick' else 900),
                   what='all sequences of two such mutations (same oracle after each step)',
                   bounds=('quick: shape 0, labels (T,a), n2=Tx, all 36 kind pairs, all targets/new names; '
                           if tier == 'quick' else
                           'thorough: shape 0 with all label pairs and n2; shape 2 with labels (T,a); all 36 kind pairs'),
                   functions=FUNCS),
        Obligation('rename_label', 'harness/c11.py', 'h_rename_label',
                   partitions=[[s, x, sub] for s in shapes1 for x in range(2) for sub in range(3)],
                   timeout=(400 if tier == 'quick' else 900),
                   what='RenameAppLabel with its optional arguments: legacy_app_label equal to the old label / absent / a different string; model_names absent / all models / only the first model of the app (the rest stays under the old label): every relation names its target under the label the target now lives under, the new app holds exactly the moved models, the old app disappears iff it is empty',
                   bounds='relation shapes as seq1; all label pairs and model names from the pools; 3 legacy choices x 3 model_names choices',
                   functions=FUNCS[1:2] + FUNCS[6:]),
        Obligation('free_label', 'harness/c11.py', 'h_free_label', timeout=25 if tier == 'quick' else 240,
                   what='RenameAppLabel with unconstrained app labels / model name (|s|<=3): the cross-app reference follows the rename',
                   bounds='bug hunting only: free strings |s|<=3 under a time budget; no exhaustion expected (names are dict keys and get realised)',
                   bug_hunting_only=True, functions=FUNCS[1:2]),
        Obligation('free_model', 'harness/c11.py', 'h_free_model', timeout=25 if tier == 'quick' else 240,
                   what='RenameModel with unconstrained model names (|s|<=3): references to the renamed model follow, references to another model stay',
                   bounds='bug hunting only: free strings |s|<=3 under a time budget',
                   bug_hunting_only=True, functions=FUNCS[0:1]),
    ]
    return run_check('C11', obs, tier,
                     assumptions=['names are drawn from finite pools by symbolic index (the code hashes them, so free strings cannot be exhausted); pools contain prefix/equality relations between labels and model names',
                                  'sequences that rename onto a name in use or re-use a label in use are treated as invalid input (skipped)',
                                  'database_state=None, database="default" as AppMutator passes them; signature level only: foreign keys inside a real database are outside this check'],
                     trusted_base=['CrossHair 0.0.110', 'z3 5.1.0', 'vlib/ch_patch.py', 'reference identity model in harness/c11.py'])
