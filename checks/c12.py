from vlib.runner import Obligation, run_check


def run(tier):
    obs = [
        Obligation('gate', 'harness/c12.py', 'h_gate', timeout=600,
                   what='evolve command gate: Evolver.evolve() is called only if execute and required and (not can_simulate or residual diff empty under the purge-dependent ignore_apps); can_simulate with a residual diff always ends in CommandError with nothing executed; purge tasks queued iff --purge',
                   bounds='all 2^9 flag combinations (minus diff_empty_apps without diff_empty; the residual Diff is a real diff.py object: empty / only a removed app / a field difference) x verbosity 0..3, stub Evolver',
                   functions=['management/commands/evolve.py Command.handle, _add_tasks, _check_simulation, _perform_evolution, _display_*']),
        Obligation('gate_real_diff', 'harness/c12.py', 'h_gate_real_diff', timeout=600,
                   what='the same gate fed with a real Diff(simulated, target) whose residual difference is of a symbolic kind (field attribute, extra field, missing field, Meta, left-over model, left-over app, combinations): every residual difference other than a removed app without --purge ends in CommandError with nothing executed',
                   bounds='9 residual kinds x 2^5 flags, stub Evolver, real diff.py',
                   functions=['management/commands/evolve.py Command._check_simulation', 'diff.py Diff.__init__, is_empty']),
        Obligation('named_rejections', 'harness/c12.py', 'h_named_rejections', timeout=300,
                   partitions=[[c] for c in range(7)],
                   what='missing app/model/field, adding an existing field, deleting a primary key, AddField/ChangeField to non-null without initial: run_simulation raises SimulationFailure',
                   bounds='7 error classes x 5 base mutations x name pools (3 missing apps, 3 missing models, 4 missing fields, 3 existing fields); max_length 1..255 and initial: any int (stay symbolic)',
                   functions=['mutations/base.py Simulation.get_app_sig/get_model_sig/get_field_sig/fail, BaseMutation.run_simulation',
                              'mutations/add_field.py AddField.simulate', 'mutations/change_field.py ChangeField.simulate, _get_field_type_change',
                              'mutations/delete_field.py DeleteField.simulate', 'mutations/delete_model.py DeleteModel.simulate']),
        Obligation('perturbed_residual', 'harness/c12.py', 'h_perturbed_residual', timeout=300,
                   partitions=[[w, p] for w in range(6) for p in range(6)],
                   what='valid evolution reaches the target (Diff empty both ways); dropped/duplicated/retargeted/re-valued/reordered evolution is rejected or leaves a non-empty residual Diff whenever the reference says the target is not reached',
                   bounds='6 base evolutions x 6 perturbations; max_length, perturbed max_length 1..255 and initial any int (symbolic)',
                   functions=['diff.py Diff.__init__/is_empty', 'signature.py *.diff', 'mutations simulate()']),
    ]
    return run_check('C12', obs, tier,
                     assumptions=['stub Evolver: can_simulate/diff_evolutions/get_evolution_required return the symbolic flags (their own correctness is C05/C03 territory)',
                                  'database untouchedness is implied only through "evolve() not called"; Evolver.__init__ writing a baseline is outside',
                                  'names from finite pools selected by symbolic index; attribute values symbolic'],
                     trusted_base=['CrossHair 0.0.110', 'z3 5.1.0', 'vlib/ch_patch.py', 'reference verdicts in harness/c12.py'])
