from vlib.runner import Obligation, run_check

VALID01 = [[b0, b1] for b0 in range(1, 5) for b1 in range(0, 5) if not (b0 == 4 and b1 == 4)]


def run(tier):
    obs = [
        Obligation('evolve', 'harness/c17.py', 'h_evolve', timeout=600,
                   what='Evolver.evolve(): evolving exactly once and first; then exactly one of evolved (iff normal return and signature saved) / evolving_failed; management._evolve_lock returns to its start value; a second evolve() after success is refused without signals',
                   bounds='0-2 tasks of each of 2 task classes, failing step -1..4, _save_project_sig may fail, optional second call',
                   functions=['evolve/evolver.py Evolver.evolve, _prepare_tasks, queue_task', 'management/__init__.py _on_evolving, _on_evolving_done', 'evolve/base.py BaseEvolutionTask']),
        Obligation('execute', 'harness/c17.py', 'h_execute', timeout=300,
                   what='EvolveAppTask.execute(): applying_evolution/applied_evolution (and creating/created_models with create_models_now) are paired iff the SQL between them ran; payload identical; failure re-raised with last_sql_statement',
                   bounds='all 2^6 combinations of {has sql, sql fails, explicit evolutions, create_models_now, has new models, creation fails}',
                   functions=['evolve/evolve_app_task.py EvolveAppTask.execute, _create_models, _apply_deferred_sql']),
        Obligation('create_models', 'harness/c17.py', 'h_create_models', timeout=300,
                   what='EvolveAppTask._create_models(): creating_models per task up front, created_models per task with equal payload iff SQL ran; error carries app_label only for a single task',
                   bounds='1-3 tasks x {ok, fail}', functions=['evolve/evolve_app_task.py EvolveAppTask._create_models']),
        Obligation('execute_tasks', 'harness/c17.py', 'h_execute_tasks', timeout=600, partitions=VALID01,
                   what='EvolveAppTask.execute_tasks() over a symbolic batch list with stubbed SQL/migration work failing at a symbolic step: signals follow batch order, each applying_evolution carries exactly its batch\'s evolutions, pairs are closed iff nothing failed in between, post-sync emitted iff all batches ran',
                   bounds='up to 3 batches of 5 kinds (evolutions for A / A+B / model creation+A / migrations), task A optionally split over batches, failing step -1..6',
                   functions=['evolve/evolve_app_task.py EvolveAppTask.execute_tasks, execute, _create_models, _apply_deferred_sql', 'utils/migrations.py MigrationExecutor._on_progress']),
        Obligation('on_progress', 'harness/c17.py', 'h_on_progress', timeout=600, partitions=[[a] for a in range(5)],
                   what='MigrationExecutor._on_progress maps apply_start/apply_success to applying/applied_migration with the same migration object and nothing else',
                   bounds='all 5^4 action sequences of length 4', functions=['utils/migrations.py MigrationExecutor._on_progress']),
    ]
    return run_check('C17', obs, tier,
                     assumptions=['work between signals is stubbed: tasks, sql_executor.run_sql, apply_migrations, emit_pre/post_migrate_or_sync, _save_project_sig, MigrationList.from_database (each may fail at the symbolic step where the real one could raise)',
                                  'correspondence between payload and the SQL really executed is outside (needs the untraceable SQL generation)'],
                     trusted_base=['CrossHair 0.0.110', 'z3 5.1.0', 'vlib/ch_patch.py', 'expected-trace oracles in harness/c17.py'])
