import importlib
import os
import subprocess
import sys


def main(argv):
    if len(argv) < 1:
        print('usage: check <ID> [quick|thorough] | check <ID> --replay <path>')
        return 3
    prop = argv[0].upper()
    if len(argv) >= 3 and argv[1] == '--replay':
        p = subprocess.run([sys.executable, argv[2]])
        if p.returncode == 1:
            print('VIOLATION property=%s replay=%s' % (prop, argv[2]))
        return p.returncode
    tier = argv[1] if len(argv) > 1 else os.environ.get('VERIF_TIER', 'quick')
    os.environ['VERIF_TIER'] = tier
    mod = importlib.import_module('checks.' + prop.lower())
    return mod.run(tier)


if __name__ == '__main__':
    sys.exit(main(sys.argv[1:]))
