from vlib.runner import Obligation, run_check

FUNCS = ['mutations/base.py BaseModelMutation.is_mutable (AddField, ChangeField, DeleteField, RenameField, ChangeMeta, RenameModel, DeleteModel)',
         'evolve/base.py BaseEvolutionTask.is_mutation_mutable', 'mutations/delete_application.py DeleteApplication.simulate',
         'compat/db.py db_get_installable_models_for_app, db_router_allows_schema_upgrade, db_router_allows_migrate',
         'signature.py AppSignature.from_app (router filter), db/state.py DatabaseState.has_model']


def run(tier):
    obs = [
        Obligation('is_mutable', 'harness/c16.py', 'h_is_mutable', timeout=600,
                   what='is_mutable(database=D) is true iff the symbolic routing table sends the mutation\'s model to D',
                   bounds='7 mutation classes x 3 models x all 2^3 routings x 2 aliases', functions=FUNCS[:1]),
        Obligation('task_filter', 'harness/c16.py', 'h_task_filter', timeout=600,
                   what='BaseEvolutionTask.is_mutation_mutable keeps a mutation iff its model is routed to the evolver\'s database',
                   bounds='same space', functions=FUNCS[:2]),
        Obligation('delete_app', 'harness/c16.py', 'h_delete_app', timeout=600,
                   what='DeleteApplication.simulate removes exactly the models routed to the evolved database',
                   bounds='all 2^3 routings x 2 aliases', functions=FUNCS[2:3]),
        Obligation('installable', 'harness/c16.py', 'h_installable', timeout=600,
                   what='db_get_installable_models_for_app (the models EvolveAppTask creates tables for) = models the router allows on the evolved database whose table does not exist yet; real django.db.router holding a chain of one or two table-driven router objects (first opinion decides)',
                   bounds='3 models x routing in {default only, other only, no opinion}^3 x table present/absent ^3 x 2 aliases x 5 router chains (one router; the opinions split over two routers, both orders; a refuse-all router behind; a no-opinion router in front)', functions=FUNCS[3:]),
        Obligation('from_app', 'harness/c16.py', 'h_from_app', timeout=600,
                   what='AppSignature.from_app(app, database), the signature recorded for a database, lists exactly the models the router chain allows on that database',
                   bounds='3 models x routing in {default only, other only, no opinion}^3 x 2 aliases x 5 router chains', functions=FUNCS[3:]),
        Obligation('evolver_baseline', 'harness/c16.py', 'h_evolver_baseline', timeout=600,
                   what='Evolver(database_name=D) on two real SQLite databases: the baseline signature comes from D\'s own version table (or is installed on D when missing) and the other database is neither consulted nor modified; discrete scenario, run concretely per path (the solver only enumerates the 8 scenarios)',
                   bounds='2 aliases x stored baseline present/absent on each database', functions=['evolve/evolver.py Evolver.__init__', 'models.py VersionManager.current_version']),
        Obligation('unapplied', 'harness/c16.py', 'h_unapplied', timeout=600,
                   what='get_unapplied_evolutions / get_applied_evolutions(app, database) on two real SQLite databases holding symbolic subsets of the recorded labels: pending = sequence minus what is recorded on the evolved database (not on the other one, not another app\'s same-named label); discrete scenarios run concretely per path',
                   bounds='3 labels recorded or not on each of 2 databases (64 combinations) x 2 aliases', functions=['utils/evolutions.py get_unapplied_evolutions, get_applied_evolutions']),
    ]
    return run_check('C16', obs, tier,
                     assumptions=['is_mutable/task_filter/delete_app: get_database_for_model_name is replaced by a symbolic routing table (2 aliases, 3 models)',
                                  'installable/from_app: the real django.db.router consults a router object driven by a symbolic table; get_models / get_app_label / get_app_upgrade_info return three fixed model classes (no installed app)',
                                  'everything else in C16 (SQL of a whole evolve() run landing on the right database, other database untouched by it) needs the untraceable pipeline end to end and is outside'],
                     trusted_base=['CrossHair 0.0.110', 'z3 5.1.0', 'vlib/ch_patch.py'])
