from vlib.runner import Obligation, run_check

FUNCS = ['mutations/base.py BaseModelMutation.is_mutable (AddField, ChangeField, DeleteField, RenameField, ChangeMeta, RenameModel, DeleteModel)',
         'evolve/base.py BaseEvolutionTask.is_mutation_mutable', 'mutations/delete_application.py DeleteApplication.simulate']


def run(tier):
    obs = [
        Obligation('is_mutable', 'harness/c16.py', 'h_is_mutable', timeout=600,
                   what='is_mutable(database=D) is true iff the symbolic routing table sends the mutation\'s model to D',
                   bounds='7 mutation classes x 3 models x all 2^3 routings x 2 aliases', functions=FUNCS[:1]),
        Obligation('task_filter', 'harness/c16.py', 'h_task_filter', timeout=600,
                   what='BaseEvolutionTask.is_mutation_mutable keeps a mutation iff its model is routed to the evolver\'s database',
                   bounds='same space', functions=FUNCS[:2]),
        Obligation('delete_app', 'harness/c16.py', 'h_delete_app', timeout=600,
                   what='DeleteApplication.simulate removes exactly the models routed to the evolved database',
                   bounds='all 2^3 routings x 2 aliases', functions=FUNCS[2:]),
    ]
    return run_check('C16', obs, tier,
                     assumptions=['get_database_for_model_name is replaced by a symbolic routing table (2 aliases, 3 models)',
                                  'everything else in C16 (tables created where, other database untouched) needs two live databases through the untraceable pipeline and is outside'],
                     trusted_base=['CrossHair 0.0.110', 'z3 5.1.0', 'vlib/ch_patch.py'])
