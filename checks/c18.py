import ast
import os
import time

from vlib.runner import Obligation, run_check, VERIF

SRC = os.environ.get('VERIF_REPO', '/repo') + '/django_evolution/db/common.py'
REQUIRED = ['add_column', 'change_column', 'delete_column', 'change_meta']


def extract_tables():
    """Re-extract, from the current source, mergeable_ops and the op types dispatched in
    generate_table_op_sql (string constants compared with op_type). If the table is no longer a
    literal in the source, fall back to the value the class really has."""
    tree = ast.parse(open(SRC).read())
    mergeable = None
    dispatched = []
    for node in ast.walk(tree):
        if isinstance(node, ast.Assign) and any(
                isinstance(t, ast.Name) and t.id == 'mergeable_ops' for t in node.targets):
            try:
                mergeable = [str(x) for x in ast.literal_eval(node.value)]
            except Exception:
                mergeable = None
        if isinstance(node, ast.FunctionDef) and node.name == 'generate_table_op_sql':
            for sub in ast.walk(node):
                if (isinstance(sub, ast.Compare) and isinstance(sub.left, ast.Name)
                        and sub.left.id == 'op_type' and len(sub.comparators) == 1
                        and isinstance(sub.comparators[0], ast.Constant)):
                    dispatched.append(sub.comparators[0].value)
    if mergeable is None:
        from vlib import boot  # noqa
        from django_evolution.db.common import BaseEvolutionOperations
        mergeable = [str(x) for x in BaseEvolutionOperations.mergeable_ops]
    return mergeable, dispatched


def e3_query():
    """z3: is there a pair a, b of required-mergeable op types that _are_ops_mergeable rejects?
    Strings are modelled as z3 String constants; membership is a disjunction over the extracted
    table. unsat = every pair of required types merges."""
    import z3
    mergeable, dispatched = extract_tables()
    t0 = time.time()
    a, b = z3.String('a'), z3.String('b')

    def member(x, table):
        return z3.Or([x == z3.StringVal(v) for v in table]) if table else z3.BoolVal(False)
    s = z3.Solver()
    s.add(member(a, REQUIRED), member(b, REQUIRED))
    s.add(z3.Not(z3.And(member(a, mergeable), member(b, mergeable))))
    r1 = str(s.check())
    witness = None
    if r1 == 'sat':
        m = s.model()
        witness = (m[a].as_string(), m[b].as_string())
    # second query: every required type is one the dispatcher knows (no dead table entry hides a typo)
    s2 = z3.Solver()
    if dispatched:
        s2.add(member(a, mergeable), z3.Not(member(a, dispatched)))
    else:
        s2.add(z3.BoolVal(False))       # dispatcher not recognisable in the source: query skipped
    r2 = str(s2.check())
    dead = s2.model()[a].as_string() if r2 == 'sat' else None
    return {'mergeable_ops': mergeable, 'dispatched_op_types': dispatched, 'required': REQUIRED,
            'pair_query': r1, 'pair_witness': witness, 'dead_entry_query': r2, 'dead_entry': dead,
            'queries': 2, 'solver_s': round(time.time() - t0, 3)}


REPLAY = '''#!/verif/.venv/bin/python
# Replay: the real class attribute must make every pair of required op types mergeable.
import sys
sys.path.insert(0, '/verif')
from vlib import boot
from django_evolution.db import EvolutionOperationsMulti
ev = EvolutionOperationsMulti('default').get_evolver()
bad = [(a, b) for a in %(req)r for b in %(req)r
       if not ev._are_ops_mergeable({'type': a}, {'type': b})]
print('REPLAY: non-mergeable required pairs:', bad)
sys.exit(1 if bad else 0)
'''


def run(tier):
    from vlib import runner
    runner.ensure_setup()
    pre = []
    e3 = e3_query()
    if e3['pair_query'] != 'unsat' or e3['dead_entry_query'] != 'unsat':
        os.makedirs(os.path.join(VERIF, 'replays'), exist_ok=True)
        rp = os.path.join(VERIF, 'replays', 'C18_e3_mergeable_ops.py')
        with open(rp, 'w') as f:
            f.write(REPLAY % {'req': REQUIRED})
        os.chmod(rp, 0o755)
        ok, tail = runner.replay(rp)
        if ok:
            pre.append({'obligation': 'e3_mergeable_table', 'call': 'pair %r / dead entry %r'
                        % (e3['pair_witness'], e3['dead_entry']),
                        'detail': 'z3: a required op type is missing from mergeable_ops (extracted %r)' % (e3['mergeable_ops'],),
                        'replay': rp})
    n_part = [[t, u] for t in range(6) for u in range(6)]
    obs = [
        Obligation('grouping', 'harness/c18.py', 'h_grouping', partitions=n_part, timeout=600,
                   what='generate_table_ops_sql: every maximal run of add_column/change_column/delete_column/change_meta ops lands in one AlterTableSQLResult (one rebuild on SQLite); other ops get their own result; every op is finished exactly once in order',
                   bounds='all op-type sequences of length 1..4 (quick) / 1..5 (thorough) over 6 op types, recording op builders',
                   functions=['db/common.py BaseEvolutionOperations.generate_table_ops_sql, generate_table_op_sql, _are_ops_mergeable, mergeable_ops']),
    ]
    obs.append(Obligation('one_rebuild', 'harness/c18.py', 'h_one_rebuild', timeout=600,
                          partitions=[[a, b] for a in range(6) for b in range(6)],
                          what='real AppMutator/ModelMutator/SQLite evolver: any sequence of 2-3 mergeable mutations (AddField, ChangeField attrs, ChangeField null, DeleteField, ChangeMeta unique_together/index_together) over two models, however interleaved, rebuilds each table at most once',
                          bounds='6 mutation kinds x 2 models, sequences of length 2-3 with each (kind, model) at most once',
                          functions=['mutators/app_mutator.py AppMutator.run_mutations/run_mutation/to_sql', 'mutators/model_mutator.py', 'db/common.py generate_table_ops_sql', 'db/sqlite3.py SQLiteAlterTableSQLResult.to_sql', 'mock_models.py']))
    return run_check('C18', obs, tier, pre_violations=pre,
                     extra_coverage={'e3_table_query': e3},
                     assumptions=['per-op SQL builders (add_column, change_column_attrs, delete_column, change_meta_*, change_column_type) and AlterTableSQLResult are replaced by recording stand-ins: the claim is about the merge decision, not about the SQL inside a rebuild (that is C01/C02)',
                                  'optimiser regrouping of mutations per model is checked under C03; statement counts on real SQL are auxiliary data of the C01/C02 engine'],
                     trusted_base=['CrossHair 0.0.110', 'z3 5.1.0', 'vlib/ch_patch.py', 'ast extraction in checks/c18.py'])
